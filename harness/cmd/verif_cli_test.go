//go:build go1.25

//go:debug asynctimerchan=0
package main

// C19: every serve flag has its documented effect, for every combination; the rate limit holds per address;
// a termination signal stops the server cleanly with its storage intact.
//
// Harness injected into cmd/olareg by /verif/bin/check (never present in /repo). The real cobra command tree is
// executed with a generated argument list inside the simulation: the listener and the signal are simulated
// (simrt.HTTPListenAndServe / simrt.Kill), everything else - flag parsing, config, olareg.New, the handlers, the
// stores, the rate limiter, the shutdown path - is the real code under the seeded scheduler and the fake clock.
// Clients with several addresses issue requests; one of them owns the content and follows a small model of what
// each switch must allow or refuse; the others only read, which loads the rate limiter. A killer task sends the
// signal at a planned moment, possibly while a slow upload is in flight.

import (
	"bytes"
	"context"
	"crypto/sha256"
	"encoding/json"
	"fmt"
	"hash/fnv"
	"io"
	"net/http"
	"net/http/httptest"
	"net/url"
	"os"
	"path/filepath"
	"sort"
	"strconv"
	"strings"
	"syscall"
	"testing"
	"testing/synctest"
	"time"

	"github.com/olareg/olareg"
	"github.com/olareg/olareg/config"
	"github.com/olareg/olareg/internal/simrt"
)

type lOp struct {
	K    string `json:"k"` // ping pushblob slowpush pushman delman delblob getblob getman refs tags sleep gcprobe
	Obj  int    `json:"o,omitempty"`
	Ms   int64  `json:"ms,omitempty"`
	XFF  string `json:"xff,omitempty"`
	Port int    `json:"port,omitempty"`
}

type lPlan struct {
	Prop     string            `json:"prop"`
	Engine   string            `json:"engine"`
	Profile  string            `json:"profile"`
	Seed     uint64            `json:"seed"`
	Tier     string            `json:"tier"`
	Set      map[string]string `json:"set"`      // flags given explicitly (name -> value); "warning" values joined with "\n"
	Addrs    []string          `json:"addrs"`    // client i connects from Addrs[i]
	Clients  [][]lOp           `json:"clients"`  // client 0 owns the content, the others read
	TermMs   int64             `json:"term_ms"`  // when the signal is sent; <0: after the clients are done
	Sig      string            `json:"sig"`      // "term" or "int"
	Restart  bool              `json:"restart"`  // start a second server on the same storage afterwards
	// Lib: the settings are given as configuration fields to olareg.New instead of flags to the serve command (only the
	// fields named in Set are set, the rest is left to the defaults). Extra fields without a flag: "upload-max" (GC.RepoUploadMax),
	// "no-root" (memory store without a directory)
	Lib map[string]string `json:"lib,omitempty"`
	Strat    simrt.Strategy    `json:"strat"`
	Sched    []uint32          `json:"sched,omitempty"`
	MapOrder []uint32          `json:"maporder,omitempty"`
	Entropy  []uint32          `json:"entropy,omitempty"`
	Fixed    bool              `json:"fixed,omitempty"`
}

func (p *lPlan) clone() *lPlan {
	b, _ := json.Marshal(p)
	q := &lPlan{}
	_ = json.Unmarshal(b, q)
	return q
}

type violation struct {
	Props  []string `json:"props"`
	Oracle string   `json:"oracle"`
	Sig    string   `json:"sig"`
	Detail string   `json:"detail"`
}

type runOut struct {
	Viol       []violation
	Fp         uint64
	NonTrivial bool
	Infra      string
	Steps      int
	Choices    int
	SimSec     float64
	EventHash  uint64
	Probes     map[string]int
	Sample     string
	Requests   int
}

type rng struct{ s uint64 }

func splitmix(x uint64) uint64 {
	x += 0x9e3779b97f4a7c15
	z := x
	z = (z ^ (z >> 30)) * 0xbf58476d1ce4e5b9
	z = (z ^ (z >> 27)) * 0x94d049bb133111eb
	return z ^ (z >> 31)
}
func (r *rng) u64() uint64 { r.s += 0x9e3779b97f4a7c15; return splitmix(r.s) }
func (r *rng) intn(n int) int {
	if n <= 1 {
		return 0
	}
	return int(r.u64() % uint64(n))
}
func (r *rng) pick(v ...int) int        { return v[r.intn(len(v))] }
func (r *rng) str(v ...string) string   { return v[r.intn(len(v))] }
func (r *rng) chance(pct int) bool      { return r.intn(100) < pct }
func seedFor(base uint64, prop string, idx int) uint64 {
	h := fnv.New64a()
	h.Write([]byte(prop))
	return splitmix(splitmix(base)^h.Sum64()) ^ splitmix(uint64(idx)*0x9e3779b97f4a7c15+1)
}

// ---------------------------------------------------------------------------------------------
// documented behaviour

// settings is what the documentation (flag help, README) says a command line means.
type settings struct {
	addr, port                         string
	store                              string
	push, del, blobDel, referrer, ro   bool
	warnings                           []string
	rate                               int
	gcFreq, gcGrace                    time.Duration
	gcUntagged                         bool
}

func boolOf(set map[string]string, name string, def bool) bool {
	if v, ok := set[name]; ok {
		return v == "true"
	}
	return def
}

func durOf(set map[string]string, name string, def time.Duration) time.Duration {
	if v, ok := set[name]; ok {
		d, err := time.ParseDuration(v)
		if err == nil {
			return d
		}
	}
	return def
}

func documented(set map[string]string) settings {
	s := settings{addr: set["addr"], port: "5000", store: "dir"}
	if v, ok := set["port"]; ok {
		s.port = v
	}
	if v, ok := set["store-type"]; ok {
		s.store = v
	}
	s.push = boolOf(set, "api-push", true)
	s.del = boolOf(set, "api-delete", false)
	s.blobDel = boolOf(set, "api-blob-delete", false)
	s.referrer = boolOf(set, "api-referrer", true)
	s.ro = boolOf(set, "store-ro", false)
	if v, ok := set["warning"]; ok && v != "" {
		s.warnings = strings.Split(v, "\n")
	}
	if v, ok := set["rate-limit"]; ok {
		s.rate, _ = strconv.Atoi(v)
	}
	s.gcFreq = durOf(set, "gc-frequency", 15*time.Minute)
	s.gcGrace = durOf(set, "gc-grace-period", time.Hour)
	s.gcUntagged = boolOf(set, "gc-untagged", false)
	return s
}

func argsOf(set map[string]string, dir string) []string {
	args := []string{"serve"}
	for _, k := range sortedKeys(set) {
		v := set[k]
		switch k {
		case "warning":
			if v != "" {
				for _, w := range strings.Split(v, "\n") {
					args = append(args, "--warning", w)
				}
			}
		case "api-push", "api-delete", "api-blob-delete", "api-referrer", "store-ro", "gc-untagged":
			args = append(args, "--"+k+"="+v)
		default:
			args = append(args, "--"+k, v)
		}
	}
	args = append(args, "--dir", dir)
	return args
}

func sortedKeys[V any](m map[string]V) []string {
	ks := make([]string, 0, len(m))
	for k := range m {
		ks = append(ks, k)
	}
	sort.Strings(ks)
	return ks
}

// ---------------------------------------------------------------------------------------------
// content universe

const repoName = "team/app"

const (
	mtManifest = "application/vnd.oci.image.manifest.v1+json"
	mtConfig   = "application/vnd.oci.image.config.v1+json"
	mtIndex    = "application/vnd.oci.image.index.v1+json"
)

type universe struct {
	blobs [][]byte // 0: config, 1: layer, 2: spare blob (never referenced), 3: slow blob
	mans  [][]byte // 0: image (config 0, layer 1), 1: artifact with subject image 0 (config 2), 2: index artifact with the same subject
}

func digestOf(b []byte) string { return fmt.Sprintf("sha256:%x", sha256.Sum256(b)) }

func newUniverse(seed uint64) *universe {
	r := &rng{s: splitmix(seed ^ 0x77)}
	u := &universe{}
	for i := 0; i < 4; i++ {
		n := 20 + r.intn(200)
		b := make([]byte, n)
		for j := range b {
			b[j] = byte(r.u64())
		}
		u.blobs = append(u.blobs, b)
	}
	desc := func(mt string, b []byte) map[string]any {
		return map[string]any{"mediaType": mt, "digest": digestOf(b), "size": len(b)}
	}
	img, _ := json.Marshal(map[string]any{"schemaVersion": 2, "mediaType": mtManifest, "config": desc(mtConfig, u.blobs[0]),
		"layers": []any{desc("application/vnd.oci.image.layer.v1.tar", u.blobs[1])}})
	u.mans = append(u.mans, img)
	art, _ := json.Marshal(map[string]any{"schemaVersion": 2, "mediaType": mtManifest, "artifactType": "application/vnd.example.sig",
		"config": desc("application/vnd.oci.empty.v1+json", u.blobs[2]), "layers": []any{}, "subject": desc(mtManifest, img)})
	u.mans = append(u.mans, art)
	// an artifact may be an index as well as an image
	iart, _ := json.Marshal(map[string]any{"schemaVersion": 2, "mediaType": mtIndex, "artifactType": "application/vnd.example.sbom",
		"manifests": []any{}, "subject": desc(mtManifest, img)})
	u.mans = append(u.mans, iart)
	return u
}

// ---------------------------------------------------------------------------------------------
// plan

func makePlan(base uint64, tier string, idx int) *lPlan {
	seed := seedFor(base, "C19", idx)
	r := &rng{s: splitmix(seed ^ 0xabcdef)}
	p := &lPlan{Prop: "C19", Engine: "cli", Seed: seed, Tier: tier, Set: map[string]string{}, TermMs: -1, Sig: r.str("term", "term", "int")}
	tf := func(name string, pctSet int) {
		if r.chance(pctSet) {
			p.Set[name] = r.str("true", "false")
		}
	}
	tf("api-push", 50)
	tf("api-delete", 70)
	tf("api-blob-delete", 70)
	tf("api-referrer", 50)
	tf("store-ro", 30)
	if r.chance(60) {
		p.Set["store-type"] = r.str("dir", "mem", "mem")
	}
	if r.chance(40) {
		p.Set["warning"] = r.str("deprecated registry", "deprecated registry\nsecond \"quoted\" warning", "maintenance at noon")
	}
	if r.chance(30) {
		p.Set["port"] = r.str("5050", "443", "8080")
	}
	if r.chance(20) {
		p.Set["addr"] = r.str("127.0.0.1", "localhost")
	}
	p.Profile = "switch matrix"
	mode := idx % 4
	switch mode {
	case 1:
		p.Profile = "rate limit"
		p.Set["rate-limit"] = fmt.Sprint(r.pick(1, 2, 3, 5, 10))
	case 2:
		p.Profile = "collection flags"
		p.Set["gc-frequency"] = r.str("1s", "2s", "-1s", "900ms")
		if r.chance(70) {
			p.Set["gc-grace-period"] = r.str("0s", "3s", "1500ms", "-1s")
		}
		tf("gc-untagged", 60)
		delete(p.Set, "store-ro")
		p.Set["api-push"] = "true"
	case 3:
		p.Profile = "termination"
		if r.chance(40) {
			p.Set["rate-limit"] = fmt.Sprint(r.pick(2, 5))
		}
	}
	if idx%8 == 7 {
		// the same settings as configuration fields of the library (no command line)
		p.Lib = map[string]string{"on": "1"}
		p.Profile += " (library configuration)"
		delete(p.Set, "port")
		delete(p.Set, "addr")
		if v, ok := p.Set["gc-grace-period"]; ok && v == "0s" {
			delete(p.Set, "gc-grace-period") // (zero is "unset" for the library)
		}
		if p.Set["store-type"] == "mem" && r.chance(60) {
			p.Lib["no-root"] = "1"
		}
		if idx%32 == 15 {
			p.Lib["upload-max"] = r.str("-1", "-1", "-5")
			p.Set["api-push"] = "true"
			delete(p.Set, "store-ro")
			delete(p.Set, "rate-limit")
		}
	}
	// a write protected server cannot be filled through the API: those runs check refusals only
	p.Addrs = []string{"192.0.2.1"}
	nOther := r.pick(0, 1, 2, 3)
	if mode == 1 {
		nOther = r.pick(1, 2, 3)
	}
	for i := 0; i < nOther; i++ {
		p.Addrs = append(p.Addrs, r.str("192.0.2.1", "192.0.2.7", "198.51.100.3", "[2001:db8::9]", "[2001:db8::9]", "[2001:db9:1::7]", "[2001:db8:0:1::7]"))
	}
	scale := 1
	if tier == "thorough" {
		scale = 2
	}
	sleeps := []int{3, 47, 211, 499, 997, 1013, 2503}
	// owner
	var own []lOp
	if mode == 2 {
		own = append(own, lOp{K: "gcprobe"})
	}
	if p.Lib["upload-max"] != "" {
		own = append(own, lOp{K: "manysessions", Ms: int64(r.pick(1100, 1300, 2100))})
	}
	if mode == 1 && idx%40 == 1 {
		lim, _ := strconv.Atoi(p.Set["rate-limit"])
		for i := 0; i <= lim; i++ {
			own = append(own, lOp{K: "ping"})
		}
		own = append(own, lOp{K: "flood", Ms: int64(r.pick(1100, 1500, 2500))})
		for i := 0; i <= lim+1; i++ {
			own = append(own, lOp{K: "ping"})
		}
		p.Profile = "rate limit, flood of addresses"
	}
	n := (6 + r.intn(10)) * scale
	for i := 0; i < n; i++ {
		switch r.intn(16) {
		case 0, 1, 2:
			own = append(own, lOp{K: "pushblob", Obj: r.intn(3)})
		case 3, 4:
			own = append(own, lOp{K: "pushman", Obj: r.pick(0, 0, 1, 1, 2)})
		case 5:
			own = append(own, lOp{K: "delman", Obj: r.pick(0, 0, 1, 1, 2)})
		case 6:
			own = append(own, lOp{K: "delblob", Obj: r.intn(3)})
		case 7:
			own = append(own, lOp{K: "refs"})
		case 8:
			own = append(own, lOp{K: "getblob", Obj: r.intn(3)})
		case 9:
			own = append(own, lOp{K: "getman", Obj: r.intn(3)})
		case 10:
			own = append(own, lOp{K: "tags"})
		case 11:
			own = append(own, lOp{K: "ping"})
		case 12:
			own = append(own, lOp{K: "sleep", Ms: int64(sleeps[r.intn(len(sleeps))])})
		case 13:
			if mode == 3 {
				own = append(own, lOp{K: "slowpush", Obj: 3, Ms: int64(r.pick(20, 200, 1500))})
			} else {
				own = append(own, lOp{K: "pushblob", Obj: r.intn(3)})
			}
		default:
			own = append(own, lOp{K: "pushblob", Obj: r.intn(2)}, lOp{K: "pushman", Obj: 0})
		}
	}
	p.Clients = append(p.Clients, own)
	for c := 1; c < len(p.Addrs); c++ {
		var ops []lOp
		m := (4 + r.intn(14)) * scale
		for i := 0; i < m; i++ {
			op := lOp{K: r.str("ping", "ping", "getblob", "getman", "tags", "refs"), Obj: r.intn(2), Port: r.pick(0, 0, 1, 2)}
			if r.chance(15) {
				op.XFF = r.str("203.0.113.5", "192.0.2.1", "203.0.113.5, 10.0.0.1")
			}
			if r.chance(30) {
				op = lOp{K: "sleep", Ms: int64(sleeps[r.intn(len(sleeps))])}
			}
			ops = append(ops, op)
		}
		p.Clients = append(p.Clients, ops)
	}
	if mode == 1 {
		// bursts from the owner's address too
		for i := 0; i < 6+r.intn(10); i++ {
			p.Clients[0] = append(p.Clients[0], lOp{K: "ping"})
			if r.chance(25) {
				p.Clients[0] = append(p.Clients[0], lOp{K: "sleep", Ms: int64(sleeps[r.intn(len(sleeps))])})
			}
		}
	}
	if mode == 3 {
		p.TermMs = int64(r.pick(0, 1, 5, 50, 300, 1100, 4000))
		p.Restart = true
	} else {
		p.Restart = r.chance(30)
	}
	switch r.intn(4) {
	case 0:
		p.Strat = simrt.Strategy{Kind: "uniform"}
	case 1:
		p.Strat = simrt.Strategy{Kind: "sticky", Sticky: r.pick(50, 80, 95)}
	case 2:
		p.Strat = simrt.Strategy{Kind: "pct", Depth: 1 + r.intn(3), Horizon: r.pick(200, 1000, 4000)}
	default:
		p.Strat = simrt.Strategy{Kind: "seq", Preempt: r.intn(4), Horizon: r.pick(200, 1000, 4000)}
	}
	return p
}

// ---------------------------------------------------------------------------------------------
// one run

type reqLog struct {
	seq       int
	client    int
	ip        string
	t0, t1    time.Time
	code      int
	refused   bool // connection refused (nobody listens)
	retry     string
	path      string
	method    string
}

type slowBody struct {
	data  []byte
	pos   int
	chunk int
	gap   time.Duration
}

func (b *slowBody) Read(p []byte) (int, error) {
	if b.pos >= len(b.data) {
		return 0, io.EOF
	}
	if b.pos > 0 {
		simrt.Sleep(b.gap)
	}
	n := b.chunk
	if n > len(p) {
		n = len(p)
	}
	if b.pos+n > len(b.data) {
		n = len(b.data) - b.pos
	}
	copy(p, b.data[b.pos:b.pos+n])
	b.pos += n
	return n, nil
}
func (b *slowBody) Close() error { return nil }

type world struct {
	p        *lPlan
	out      *runOut
	set      settings
	u        *universe
	listen   string
	dir      string
	log      []reqLog
	seq      int
	start    time.Time
	blobs    map[string][]byte // content the owner believes is in the repository
	mans     map[string][]byte
	acked    map[string][]byte // everything that was ever acknowledged and not deleted since (for the storage check)
	unsure   map[string]bool   // content a collection may have removed
	stopping bool
	ambiguous map[string]bool // addresses whose accounting cannot be reconstructed exactly
}

func (w *world) viol(oracle, sig, detail string) {
	if len(detail) > 1500 {
		detail = detail[:1500] + "..."
	}
	w.out.Viol = append(w.out.Viol, violation{Props: []string{"C19"}, Oracle: oracle, Sig: oracle + ":" + sig, Detail: detail})
}

func effectiveIP(remote, xff string) string {
	if xff != "" {
		ip, _, _ := strings.Cut(xff, ", ")
		return ip
	}
	if i := strings.LastIndex(remote, ":"); i > 0 {
		return remote[:i]
	}
	return remote
}

type resp struct {
	code    int
	h       http.Header
	body    []byte
	refused bool
}

func (w *world) do(client int, method, path, query string, hdr http.Header, body io.ReadCloser, clen int64, op lOp) *resp {
	simrt.Sleep(10 * time.Microsecond)
	remote := fmt.Sprintf("%s:%d", w.p.Addrs[client], 40000+client*10+op.Port)
	u := &url.URL{Path: path, RawQuery: query}
	if hdr == nil {
		hdr = http.Header{}
	}
	if op.XFF != "" {
		hdr.Set("X-Forwarded-For", op.XFF)
	}
	req := (&http.Request{Method: method, URL: u, Header: hdr, Proto: "HTTP/1.1", ProtoMajor: 1, ProtoMinor: 1, Host: "registry.test",
		RequestURI: u.RequestURI(), RemoteAddr: remote}).WithContext(context.Background())
	if body == nil {
		req.Body = http.NoBody
	} else {
		req.Body = body
		req.ContentLength = clen
	}
	rec := httptest.NewRecorder()
	w.seq++
	rl := reqLog{seq: w.seq, client: client, ip: effectiveIP(remote, op.XFF), t0: time.Now(), path: path, method: method}
	w.out.Requests++
	var err error
	panicked := ""
	func() {
		defer func() {
			if r := recover(); r != nil {
				panicked = fmt.Sprint(r)
			}
		}()
		simrt.EnterServer()
		defer simrt.LeaveServer()
		err = simrt.Deliver(w.listen, rec, req)
	}()
	rl.t1 = time.Now()
	out := &resp{}
	if panicked != "" {
		w.viol("req.panic", method+" "+routeOf(path), fmt.Sprintf("%s %s panicked: %s", method, path, panicked))
		out.code = 500
	} else if err != nil {
		rl.refused = true
		out.refused = true
	} else {
		out.code, out.h, out.body = rec.Code, rec.Result().Header, rec.Body.Bytes()
		rl.code, rl.retry = rec.Code, rec.Result().Header.Get("Retry-After")
	}
	w.log = append(w.log, rl)
	if !out.refused && panicked == "" {
		w.everyResponse(method, path, out)
	}
	return out
}

func routeOf(p string) string {
	switch {
	case strings.Contains(p, "/blobs/uploads"):
		return "upload"
	case strings.Contains(p, "/blobs/"):
		return "blob"
	case strings.Contains(p, "/manifests/"):
		return "manifest"
	case strings.Contains(p, "/referrers/"):
		return "referrers"
	case strings.Contains(p, "/tags/"):
		return "tags"
	}
	return "ping"
}

// everyResponse: the warnings configured, and only those, on every response; no 5xx.
func (w *world) everyResponse(method, path string, r *resp) {
	var want []string
	for _, m := range w.set.warnings {
		want = append(want, `299 - "`+m+`"`)
	}
	got := r.h.Values("Warning")
	if strings.Join(got, "|") != strings.Join(want, "|") {
		w.viol("flag.warning", fmt.Sprintf("%d configured, %d sent", len(want), len(got)), fmt.Sprintf("%s %s -> %d carries Warning headers %q, configured: %q", method, path, r.code, got, want))
	}
	if r.code >= 500 && !w.stopping {
		w.viol("req.5xx", method+" "+routeOf(path)+" -> "+strconv.Itoa(r.code), fmt.Sprintf("%s %s answered %d %s", method, path, r.code, trunc(r.body, 200)))
	}
	if r.code == http.StatusTooManyRequests {
		if w.set.rate <= 0 {
			w.viol("rate.unconfigured", "429 without a limit", fmt.Sprintf("%s %s answered 429 although no rate limit is configured", method, path))
		} else if r.h.Get("Retry-After") == "" {
			w.viol("rate.retry-after", "missing", fmt.Sprintf("%s %s answered 429 without Retry-After", method, path))
		}
	}
}

func absDur(d time.Duration) time.Duration {
	if d < 0 {
		return -d
	}
	return d
}

func trunc(b []byte, n int) string {
	if len(b) > n {
		return string(b[:n]) + "..."
	}
	return string(b)
}

// writable: the documented conjunction for each kind of write.
func (w *world) canPush() bool    { return w.set.push && !w.set.ro }
func (w *world) canDelete() bool  { return w.set.del && !w.set.ro }
func (w *world) canBlobDel() bool { return w.set.del && w.set.blobDel && !w.set.ro }

func (w *world) refusal(what string, r *resp, enabled bool) bool {
	// returns true when the request was refused by a switch (and checks that it had to be)
	if r.refused || r.code == http.StatusTooManyRequests {
		return true
	}
	if enabled {
		return false
	}
	if r.code < 400 || r.code >= 500 {
		w.viol("switch.not-refused", what+" -> "+strconv.Itoa(r.code), fmt.Sprintf("%s answered %d although the command line does not allow it (push=%v delete=%v blob-delete=%v read-only=%v)", what, r.code, w.set.push, w.set.del, w.set.blobDel, w.set.ro))
	}
	return true
}

func (w *world) ownerOp(op lOp) {
	base := "/v2/" + repoName
	switch op.K {
	case "sleep":
		simrt.Sleep(time.Duration(op.Ms) * time.Millisecond)
		if w.set.gcFreq > 0 && !w.set.ro {
			w.markCollectable()
		}
	case "ping":
		r := w.do(0, "GET", "/v2/", "", nil, nil, 0, op)
		if !r.refused && r.code != 200 && r.code != 429 {
			w.viol("ping.status", strconv.Itoa(r.code), fmt.Sprintf("GET /v2/ answered %d", r.code))
		}
	case "pushblob", "slowpush":
		data := w.u.blobs[op.Obj]
		d := digestOf(data)
		q := url.Values{"digest": {d}}
		var r *resp
		if op.K == "slowpush" {
			body := &slowBody{data: data, chunk: 1 + len(data)/4, gap: time.Duration(op.Ms) * time.Millisecond / 4}
			w.out.Probes["slow-upload"]++
			r = w.do(0, "POST", base+"/blobs/uploads/", q.Encode(), nil, body, int64(len(data)), op)
		} else {
			r = w.do(0, "POST", base+"/blobs/uploads/", q.Encode(), nil, io.NopCloser(bytes.NewReader(data)), int64(len(data)), op)
		}
		if w.refusal("blob push", r, w.canPush()) {
			return
		}
		if r.code != 201 {
			w.viol("switch.refused-although-enabled", "blob push -> "+strconv.Itoa(r.code), fmt.Sprintf("blob push answered %d %s although push is enabled and the store is writable", r.code, trunc(r.body, 200)))
			return
		}
		w.blobs[d], w.acked[d] = data, data
		delete(w.unsure, d)
		w.out.Probes["blob-pushed"]++
	case "pushman":
		data := w.u.mans[op.Obj]
		d := digestOf(data)
		tag := []string{"v1", "sig", "sbom"}[op.Obj]
		ct := mtManifest
		if op.Obj == 2 {
			ct = mtIndex
		}
		r := w.do(0, "PUT", base+"/manifests/"+tag, "", http.Header{"Content-Type": {ct}}, io.NopCloser(bytes.NewReader(data)), int64(len(data)), op)
		// --api-referrer: the OCI-Subject header tells the client that the registry keeps the referrers of the subject itself
		if !r.refused && r.code != 429 {
			subj := r.h.Get("OCI-Subject")
			switch {
			case !w.set.referrer && subj != "":
				w.viol("switch.referrer-off", "OCI-Subject sent", fmt.Sprintf("PUT of manifest %s answered %d with OCI-Subject %s although --api-referrer=false", tag, r.code, subj))
			case w.set.referrer && r.code == 201 && op.Obj > 0 && subj != digestOf(w.u.mans[0]):
				w.viol("switch.referrer-on", "OCI-Subject missing", fmt.Sprintf("PUT of artifact %s answered 201 with OCI-Subject %q, subject is %s", tag, subj, digestOf(w.u.mans[0])))
			case op.Obj == 0 && subj != "":
				w.viol("switch.referrer-on", "OCI-Subject on a manifest without subject", fmt.Sprintf("PUT of %s answered with OCI-Subject %s", tag, subj))
			}
		}
		if w.refusal("manifest push", r, w.canPush()) {
			return
		}
		// complete only if everything it names is there
		need := [][]byte{w.u.blobs[0], w.u.blobs[1]}
		switch op.Obj {
		case 1:
			need = [][]byte{w.u.blobs[2]}
		case 2:
			need = nil
		}
		complete, unsure := true, false
		for _, b := range need {
			if _, ok := w.blobs[digestOf(b)]; !ok {
				complete = false
			}
			if w.unsure[digestOf(b)] {
				unsure = true
			}
		}
		switch {
		case r.code == 201 && (complete || unsure):
			w.mans[d], w.acked[d] = data, data
			delete(w.unsure, d)
			for _, b := range need {
				delete(w.unsure, digestOf(b))
			}
			w.out.Probes["manifest-pushed"]++
		case r.code == 201:
			w.viol("manifest.accepted-incomplete", tag, fmt.Sprintf("manifest %s acknowledged although content it names was never pushed", tag))
		case complete && !unsure:
			w.viol("switch.refused-although-enabled", "manifest push -> "+strconv.Itoa(r.code), fmt.Sprintf("complete manifest %s answered %d %s although push is enabled", tag, r.code, trunc(r.body, 200)))
		}
	case "delman":
		d := digestOf(w.u.mans[op.Obj])
		r := w.do(0, "DELETE", base+"/manifests/"+d, "", nil, nil, 0, op)
		if w.refusal("manifest delete", r, w.canDelete()) {
			return
		}
		_, present := w.mans[d]
		switch {
		case present && r.code == 202:
			delete(w.mans, d)
			delete(w.acked, d)
			w.out.Probes["manifest-deleted"]++
		case present && !w.unsure[d]:
			w.viol("switch.refused-although-enabled", "manifest delete -> "+strconv.Itoa(r.code), fmt.Sprintf("delete of present manifest answered %d although delete is enabled", r.code))
		case !present && r.code/100 == 2:
			w.viol("delete.absent", "manifest", fmt.Sprintf("delete of absent manifest answered %d", r.code))
		}
	case "delblob":
		d := digestOf(w.u.blobs[op.Obj])
		r := w.do(0, "DELETE", base+"/blobs/"+d, "", nil, nil, 0, op)
		if w.refusal("blob delete", r, w.canBlobDel()) {
			return
		}
		_, present := w.blobs[d]
		switch {
		case present && r.code == 202:
			delete(w.blobs, d)
			delete(w.acked, d)
			w.out.Probes["blob-deleted"]++
		case present && !w.unsure[d]:
			w.viol("switch.refused-although-enabled", "blob delete -> "+strconv.Itoa(r.code), fmt.Sprintf("delete of present blob answered %d although delete and blob delete are enabled", r.code))
		}
	case "getblob":
		data := w.u.blobs[op.Obj]
		d := digestOf(data)
		r := w.do(0, "GET", base+"/blobs/"+d, "", nil, nil, 0, op)
		w.checkRead("blob", d, r, w.blobs)
	case "getman":
		data := w.u.mans[op.Obj]
		d := digestOf(data)
		r := w.do(0, "GET", base+"/manifests/"+d, "", http.Header{"Accept": {mtManifest, mtIndex}}, nil, 0, op)
		w.checkRead("manifest", d, r, w.mans)
	case "tags":
		r := w.do(0, "GET", base+"/tags/list", "", nil, nil, 0, op)
		if !r.refused && r.code != 200 && r.code != 404 && r.code != 429 {
			w.viol("tags.status", strconv.Itoa(r.code), fmt.Sprintf("tag listing answered %d", r.code))
		}
	case "refs":
		subj := digestOf(w.u.mans[0])
		r := w.do(0, "GET", base+"/referrers/"+subj, "", nil, nil, 0, op)
		if r.refused || r.code == 429 {
			return
		}
		if !w.set.referrer {
			if r.code != 404 {
				w.viol("switch.not-refused", "referrers -> "+strconv.Itoa(r.code), fmt.Sprintf("the referrers API answered %d although --api-referrer=false", r.code))
			}
			return
		}
		if r.code != 200 {
			w.viol("switch.refused-although-enabled", "referrers -> "+strconv.Itoa(r.code), fmt.Sprintf("the referrers API answered %d although it is enabled", r.code))
			return
		}
		var doc struct {
			Manifests []struct {
				Digest string `json:"digest"`
			} `json:"manifests"`
		}
		_ = json.Unmarshal(r.body, &doc)
		got := map[string]bool{}
		for _, m := range doc.Manifests {
			if m.Digest == digestOf(w.u.mans[1]) || m.Digest == digestOf(w.u.mans[2]) {
				got[m.Digest] = true
			} else {
				w.viol("referrers.extra", "unknown entry", fmt.Sprintf("referrers list %s", m.Digest))
			}
		}
		for _, art := range []string{digestOf(w.u.mans[1]), digestOf(w.u.mans[2])} {
			if _, want := w.mans[art]; want != got[art] && !w.unsure[art] {
				w.viol("referrers.set", fmt.Sprintf("want %v got %v", want, got[art]), fmt.Sprintf("artifact %s present=%v, listed=%v", art, want, got[art]))
			}
		}
		w.out.Probes["referrers-read"]++
	case "gcprobe":
		w.gcProbe()
	case "manysessions":
		w.manySessions(int(op.Ms))
	case "flood":
		// very many addresses at once, one request each: the accounting of the others goes on
		for i := 0; i < int(op.Ms); i++ {
			if r := w.do(0, "GET", "/v2/", "", nil, nil, 0, lOp{XFF: fmt.Sprintf("10.%d.%d.%d", 1+i/60000, i/250%240, 1+i%250)}); r.refused {
				return
			}
		}
		w.out.Probes["flood-of-addresses"]++
	}
}

func (w *world) checkRead(kind, d string, r *resp, have map[string][]byte) {
	if r.refused || r.code == 429 {
		return
	}
	data, present := have[d]
	switch {
	case present && r.code == 200:
		if !bytes.Equal(r.body, data) {
			w.viol("read.bytes", kind, fmt.Sprintf("%s %s: %d bytes returned, %d pushed", kind, d, len(r.body), len(data)))
		}
	case present && !w.unsure[d]:
		w.viol("read.lost", kind+" -> "+strconv.Itoa(r.code), fmt.Sprintf("acknowledged %s %s answered %d", kind, d, r.code))
	case !present && r.code == 200:
		w.viol("read.resurrected", kind, fmt.Sprintf("%s %s answered 200 although it was never pushed, was refused or was deleted (a refused request changed state?)", kind, d))
	}
}

// markCollectable: with a running collection, unreferenced blobs and (with --gc-untagged) untagged manifests may go.
func (w *world) markCollectable() {
	ref := map[string]bool{}
	if _, ok := w.mans[digestOf(w.u.mans[0])]; ok {
		ref[digestOf(w.u.blobs[0])], ref[digestOf(w.u.blobs[1])] = true, true
	}
	if _, ok := w.mans[digestOf(w.u.mans[1])]; ok {
		ref[digestOf(w.u.blobs[2])] = true
	}
	for d := range w.blobs {
		if !ref[d] {
			w.unsure[d] = true
		}
	}
	// the artifact follows its subject (documented default of --gc-referrer-subject)
	if _, ok := w.mans[digestOf(w.u.mans[0])]; !ok {
		w.unsure[digestOf(w.u.mans[1])] = true
		w.unsure[digestOf(w.u.mans[2])] = true
		w.unsure[digestOf(w.u.blobs[2])] = true
	}
}

// gcProbe: --gc-frequency and --gc-grace-period decide when an unreferenced blob disappears.
func (w *world) gcProbe() {
	if !w.canPush() {
		return
	}
	data := w.u.blobs[2]
	d := digestOf(data)
	q := url.Values{"digest": {d}}
	r := w.do(0, "POST", "/v2/"+repoName+"/blobs/uploads/", q.Encode(), nil, io.NopCloser(bytes.NewReader(data)), int64(len(data)), lOp{})
	if r.code != 201 {
		return
	}
	f, g := w.set.gcFreq, w.set.gcGrace
	wait := 5 * time.Second
	if f > 0 {
		wait = 2*f + time.Second
		if g > 0 {
			wait += g
		}
	}
	simrt.Sleep(wait)
	r = w.do(0, "GET", "/v2/"+repoName+"/blobs/"+d, "", nil, nil, 0, lOp{})
	if r.refused || r.code == 429 {
		return
	}
	gone := r.code == 404
	switch {
	case f <= 0 && gone:
		w.viol("flag.gc-frequency", "disabled but collected", fmt.Sprintf("--gc-frequency %s (collection disabled): an unreferenced blob was removed within %s", w.p.Set["gc-frequency"], wait))
	case f > 0 && !gone:
		w.viol("flag.gc-grace-period", fmt.Sprintf("explicit %q: still there after grace + 2 ticks", w.p.Set["gc-grace-period"]), fmt.Sprintf("--gc-frequency %s --gc-grace-period %q: an unreferenced blob is still served %s after it was pushed (documented: collected once the grace period of %s has passed)", w.p.Set["gc-frequency"], w.p.Set["gc-grace-period"], wait, g))
	}
	w.out.Probes["gc-probe"]++
	if gone {
		delete(w.blobs, d)
		delete(w.acked, d)
	} else {
		w.blobs[d], w.acked[d] = data, data
	}
}

func (w *world) readerOp(c int, op lOp) bool {
	base := "/v2/" + repoName
	var r *resp
	switch op.K {
	case "sleep":
		simrt.Sleep(time.Duration(op.Ms) * time.Millisecond)
		return true
	case "ping":
		r = w.do(c, "GET", "/v2/", "", nil, nil, 0, op)
	case "getblob":
		r = w.do(c, "GET", base+"/blobs/"+digestOf(w.u.blobs[op.Obj]), "", nil, nil, 0, op)
	case "getman":
		r = w.do(c, "GET", base+"/manifests/"+digestOf(w.u.mans[op.Obj]), "", http.Header{"Accept": {mtManifest, mtIndex}}, nil, 0, op)
	case "tags":
		r = w.do(c, "GET", base+"/tags/list", "", nil, nil, 0, op)
	case "refs":
		r = w.do(c, "GET", base+"/referrers/"+digestOf(w.u.mans[0]), "", nil, nil, 0, op)
	}
	return r == nil || !r.refused
}

// rateOracle: per address and accounting second (it begins with the first request after the previous one is over),
// exactly min(limit, requests) are served.
func (w *world) rateOracle() {
	if w.set.rate <= 0 {
		return
	}
	by := map[string][]reqLog{}
	for _, l := range w.log {
		if l.refused {
			continue
		}
		by[l.ip] = append(by[l.ip], l)
	}
	for _, ip := range sortedKeys(by) {
		ls := by[ip]
		sort.SliceStable(ls, func(i, j int) bool { return ls[i].t0.Before(ls[j].t0) })
		// The request is accounted before the handler does anything that takes simulated time (the clock only advances when
		// no task can run, and a request waiting for the limiter's mutex can): the instant of the accounting is t0.
		ok := true
		var winStart time.Time
		total, served := 0, 0
		flush := func() {
			if total == 0 {
				return
			}
			want := total
			if want > w.set.rate {
				want = w.set.rate
			}
			if served > w.set.rate {
				w.viol("rate.exceeded", fmt.Sprintf("limit %d: %d served in one accounting second", w.set.rate, served), fmt.Sprintf("address %s: %d of %d requests were served in the accounting second that began %s after the start; the limit is %d", ip, served, total, winStart.Sub(w.start), w.set.rate))
			} else if served < want {
				w.viol("rate.throttled-early", fmt.Sprintf("limit %d: %d of %d served", w.set.rate, served, total), fmt.Sprintf("address %s: only %d of %d requests were served in the accounting second that began %s after the start; the limit is %d", ip, served, total, winStart.Sub(w.start), w.set.rate))
			}
			w.out.Probes["rate-windows"]++
			if total > w.set.rate {
				w.out.Probes["rate-windows-over-limit"]++
			}
		}
		for _, l := range ls {
			t := l.t0
			if total > 0 {
				d := t.Sub(winStart)
				if d == time.Second {
					ok = false // on the boundary: either reading of "one second" is defensible
					break
				}
				if d > time.Second {
					flush()
					total, served = 0, 0
				}
			}
			if total == 0 {
				winStart = t
			}
			total++
			if l.code != http.StatusTooManyRequests {
				served++
			}
		}
		if ok {
			flush()
		} else {
			w.out.Probes["rate-ambiguous"]++
		}
	}
}

// storageIntact: after the process is gone, what was acknowledged is on disk (directory store), nothing half done is left.
func (w *world) storageIntact(when string) {
	if w.set.store != "dir" {
		// the memory store must not have written anything
		n := 0
		_ = filepath.Walk(w.dir, func(p string, fi os.FileInfo, err error) error {
			if err == nil && !fi.IsDir() {
				n++
			}
			return nil
		})
		if n > 0 {
			w.viol("flag.store-type", "memory store wrote files", fmt.Sprintf("--store-type mem: %d files under --dir %s", n, when))
		}
		return
	}
	rdir := filepath.Join(w.dir, repoName)
	for _, d := range sortedKeys(w.acked) {
		if w.unsure[d] {
			continue
		}
		b, err := os.ReadFile(filepath.Join(rdir, "blobs", "sha256", strings.TrimPrefix(d, "sha256:")))
		if err != nil {
			w.viol("term.storage", "acknowledged content missing", fmt.Sprintf("%s: %s was acknowledged and is not in the directory: %v", when, d, err))
			return
		}
		if !bytes.Equal(b, w.acked[d]) {
			w.viol("term.storage", "acknowledged content differs", fmt.Sprintf("%s: %s holds %d bytes, %d were acknowledged", when, d, len(b), len(w.acked[d])))
			return
		}
	}
	if len(w.acked) > 0 || len(w.mans) > 0 {
		ib, err := os.ReadFile(filepath.Join(rdir, "index.json"))
		var doc struct {
			Manifests []struct {
				Digest string `json:"digest"`
			} `json:"manifests"`
		}
		if err != nil || json.Unmarshal(ib, &doc) != nil {
			if len(w.mans) > 0 {
				w.viol("term.storage", "index.json unreadable", fmt.Sprintf("%s: index.json: %v %q", when, err, trunc(ib, 100)))
			}
			return
		}
		listed := map[string]bool{}
		for _, m := range doc.Manifests {
			listed[m.Digest] = true
		}
		for _, d := range sortedKeys(w.mans) {
			if d == digestOf(w.u.mans[1]) || d == digestOf(w.u.mans[2]) {
				continue // an artifact is listed by the referrers response of its subject
			}
			if !listed[d] && !w.unsure[d] {
				w.viol("term.storage", "acknowledged manifest not in index.json", fmt.Sprintf("%s: manifest %s is not listed by index.json", when, d))
			}
		}
	}
	_ = filepath.Walk(w.dir, func(p string, fi os.FileInfo, err error) error {
		if err == nil && !fi.IsDir() && strings.Contains(p, "_uploads") {
			w.viol("term.residue", "upload file left", fmt.Sprintf("%s: %s is left behind", when, strings.TrimPrefix(p, w.dir)))
		}
		return nil
	})
}

var runCounter int

func runPlan(t *testing.T, p *lPlan) (out *runOut) {
	out = &runOut{Probes: map[string]int{}}
	runCounter++
	base := os.Getenv("VERIF_RUNDIR")
	if base == "" {
		base = os.TempDir()
	}
	root, err := os.MkdirTemp(base, fmt.Sprintf("cli%d-", runCounter))
	if err != nil {
		out.Infra = err.Error()
		return
	}
	defer os.RemoveAll(root)
	mk := func(vals []uint32, salt uint64) *simrt.Stream {
		st := simrt.NewStream(p.Seed ^ salt)
		st.Vals = append([]uint32(nil), vals...)
		st.Fixed = p.Fixed
		return st
	}
	sched, mo, ent := mk(p.Sched, 0x1111), mk(p.MapOrder, 0x2222), mk(p.Entropy, 0x3333)
	var sim *simrt.Sim
	var res simrt.Result
	w := &world{p: p, out: out, set: documented(p.Set), u: newUniverse(p.Seed), dir: filepath.Join(root, "data"),
		blobs: map[string][]byte{}, mans: map[string][]byte{}, acked: map[string][]byte{}, unsure: map[string]bool{}}
	_ = os.MkdirAll(w.dir, 0755)
	w.listen = w.set.addr + ":" + w.set.port
	body := func(t *testing.T) {
		sim = simrt.New(sched, mo, ent)
		sim.SetStrategy(p.Strat)
		w.start = time.Now()
		sim.GoNamed("main", "main", func() {
			defer func() {
				if r := recover(); r != nil {
					out.Infra = fmt.Sprintf("harness panic: %v", r)
					sim.Abort("harness panic")
				}
			}()
			w.session(sim, true)
			if p.Restart && len(out.Viol) == 0 {
				// a second process on the same storage: what was acknowledged is served again (directory store)
				w.stopping = false
				if w.set.store != "dir" {
					w.blobs, w.mans, w.acked = map[string][]byte{}, map[string][]byte{}, map[string][]byte{}
				}
				w.session(sim, false)
			}
			// the processes are gone: whatever they left running (a store that was never closed keeps its ticker) ends here
			sim.Abort("main finished")
		})
		res = sim.Run()
		out.SimSec = time.Since(w.start).Seconds()
	}
	done := make(chan struct{})
	go func() {
		defer close(done)
		defer func() {
			if r := recover(); r != nil {
				if !res.Leaked && out.Infra == "" {
					out.Infra = "bubble panic: " + fmt.Sprint(r)
				}
			}
		}()
		synctest.Test(t, body)
	}()
	<-done
	if sim == nil {
		out.Infra = "simulation did not start"
		return
	}
	if pv, st := sim.Panic(); pv != nil && out.Infra == "" {
		out.Infra = fmt.Sprintf("task panic: %v\n%s", pv, st)
	}
	if res.Deadlock != nil {
		out.Viol = append(out.Viol, violation{Props: []string{"C19", "C12"}, Oracle: "hang.cycle", Sig: "hang.cycle:" + strings.Join(res.CycleSig, " || "), Detail: strings.Join(res.Deadlock, "\n")})
	}
	if res.OutOfSteps && out.Infra == "" {
		out.Infra = "step budget exhausted"
	}
	if res.Aborted && res.Reason != "main finished" && out.Infra == "" && len(out.Viol) == 0 {
		out.Infra = "aborted: " + res.Reason
	}
	out.Steps, out.Choices = sim.Steps, sim.Choices
	h := fnv.New64a()
	for _, l := range w.log {
		fmt.Fprintf(h, "%d|%d|%s|%s|%s|%d|%v|%d\n", l.seq, l.client, l.ip, l.method, l.path, l.code, l.refused, l.t0.Sub(w.start))
	}
	out.EventHash = h.Sum64() ^ sim.TraceHash
	fh := fnv.New64a()
	for _, k := range sortedKeys(p.Set) {
		fmt.Fprintf(fh, "%s=%s|", k, p.Set[k])
	}
	out.Fp = fh.Sum64() ^ sim.TraceHash
	out.NonTrivial = out.Requests > 3 && out.Probes["listen"] > 0
	p.Sched, p.MapOrder, p.Entropy = sched.Vals, mo.Vals, ent.Vals
	names, counts := sim.Probes()
	for i := range names {
		out.Probes[names[i]] += counts[i]
	}
	sb, _ := json.Marshal(map[string]any{"seed": p.Seed, "profile": p.Profile, "flags": p.Set, "clients": len(p.Clients), "addresses": p.Addrs,
		"requests": out.Requests, "signal_ms": p.TermMs, "strategy": p.Strat.Kind, "owner_ops": p.Clients[0][:min(8, len(p.Clients[0]))]})
	out.Sample = string(sb)
	return
}

// libConfig: the plan's settings as configuration fields, nothing else set.
func (w *world) libConfig() config.Config {
	set := w.p.Set
	c := config.Config{}
	c.HTTP.Addr = w.listen
	c.Storage.StoreType = config.StoreDir
	if w.set.store == "mem" {
		c.Storage.StoreType = config.StoreMem
	}
	if !(w.set.store == "mem" && w.p.Lib["no-root"] != "") {
		c.Storage.RootDir = w.dir
	}
	bp := func(name string) *bool {
		if v, ok := set[name]; ok {
			b := v == "true"
			return &b
		}
		return nil
	}
	c.API.PushEnabled, c.API.DeleteEnabled, c.API.Blob.DeleteEnabled = bp("api-push"), bp("api-delete"), bp("api-blob-delete")
	c.API.Referrer.Enabled, c.Storage.ReadOnly, c.Storage.GC.Untagged = bp("api-referrer"), bp("store-ro"), bp("gc-untagged")
	c.API.RateLimit = w.set.rate
	c.API.Warnings = w.set.warnings
	if _, ok := set["gc-frequency"]; ok {
		c.Storage.GC.Frequency = w.set.gcFreq
	}
	if _, ok := set["gc-grace-period"]; ok {
		c.Storage.GC.GracePeriod = w.set.gcGrace
	}
	if v, ok := w.p.Lib["upload-max"]; ok {
		c.Storage.GC.RepoUploadMax, _ = strconv.Atoi(v)
	}
	return c
}

// manySessions (library mode, GC.RepoUploadMax negative = "unlimited"): far more sessions than any default would allow
// stay usable.
func (w *world) manySessions(n int) {
	if !w.canPush() {
		return
	}
	base := "/v2/" + repoName
	var locs []string
	for i := 0; i < n; i++ {
		r := w.do(0, "POST", base+"/blobs/uploads/", "", nil, nil, 0, lOp{})
		if r.refused || r.code == 429 {
			return
		}
		if r.code != 202 {
			w.viol("config.upload-max", "unlimited: session refused", fmt.Sprintf("GC.RepoUploadMax=%s: opening session %d answered %d", w.p.Lib["upload-max"], i+1, r.code))
			return
		}
		locs = append(locs, r.h.Get("Location"))
	}
	for _, i := range []int{0, 1, n / 10, n / 2, n - 1} {
		u, err := url.Parse(locs[i])
		if err != nil {
			continue
		}
		r := w.do(0, "GET", u.Path, u.RawQuery, nil, nil, 0, lOp{})
		if !r.refused && r.code != 429 && r.code != 204 {
			w.viol("config.upload-max", "unlimited: session discarded", fmt.Sprintf("GC.RepoUploadMax=%s (unlimited): of %d open sessions, session %d answers %d %s", w.p.Lib["upload-max"], n, i+1, r.code, trunc(r.body, 120)))
			return
		}
	}
	w.out.Probes["many-sessions"]++
	for _, l := range locs {
		if u, err := url.Parse(l); err == nil {
			w.do(0, "DELETE", u.Path, u.RawQuery, nil, nil, 0, lOp{})
		}
	}
}

// session runs one process lifetime: serve, clients, signal, exit.
func (w *world) session(sim *simrt.Sim, first bool) {
	p := w.p
	args := argsOf(p.Set, w.dir)
	var serveErr error
	served := false
	abandoned := 0
	var swg simrt.WaitGroup
	swg.Add(1)
	var lib *olareg.Server
	if p.Lib != nil {
		lib = olareg.New(w.libConfig())
		args = []string{"(library)", fmt.Sprint(p.Set), fmt.Sprint(p.Lib)}
	}
	sim.GoNamed("serve", "go", func() {
		defer swg.Done()
		if lib != nil {
			serveErr = lib.Run(context.Background())
		} else {
			cmd := newRootCmd()
			cmd.SetArgs(args)
			cmd.SetOut(io.Discard)
			cmd.SetErr(io.Discard)
			serveErr = cmd.ExecuteContext(context.Background())
		}
		// the command returned: the process exits at this instant, whatever is still being handled is cut off
		abandoned = simrt.InFlight()
		served = true
	})
	// wait for the listener (the command line may also be refused)
	for i := 0; i < 1000 && !simrt.Listening(w.listen) && !served; i++ {
		simrt.Sleep(time.Millisecond)
	}
	if served || !simrt.Listening(w.listen) {
		w.viol("serve.start", "not listening", fmt.Sprintf("olareg %s: nothing listens on %q after 1s (error: %v)", strings.Join(args, " "), w.listen, serveErr))
		return
	}
	w.out.Probes["listen"]++
	w.log = nil
	// nothing may hang: the clients finish and the command returns within the time the plan itself asks for, plus a margin
	budget := 10 * time.Minute
	for _, ops := range p.Clients {
		for _, op := range ops {
			budget += 2 * time.Duration(op.Ms) * time.Millisecond
			if op.K == "gcprobe" {
				budget += 2*absDur(w.set.gcFreq) + absDur(w.set.gcGrace) + time.Minute
			}
		}
	}
	wdAll := simrt.AfterFunc(budget, func() {
		w.viol("hang", "clients or serve stuck", fmt.Sprintf("%s after the server started listening the run has not finished (served=%v):\n%s", budget, served, strings.Join(sim.Dump(), "\n")))
		sim.Abort("liveness: run does not finish")
	})
	defer wdAll.Stop()
	var cwg simrt.WaitGroup
	killed := false
	kill := func() {
		if killed {
			return
		}
		killed = true
		w.stopping = true
		if simrt.InFlight() > 0 {
			w.out.Probes["signal-with-request-in-flight"]++
		}
		if lib != nil {
			// what the embedding program does on a signal
			swg.Add(1)
			sim.GoNamed("shutdown", "go", func() {
				defer swg.Done()
				if err := lib.Shutdown(context.Background()); err != nil {
					w.viol("term.exit", "Shutdown error", fmt.Sprintf("Server.Shutdown returned %v", err))
				}
			})
			return
		}
		sig := os.Signal(syscall.SIGTERM)
		if p.Sig == "int" {
			sig = os.Interrupt
		}
		if !simrt.Kill(sig) {
			w.viol("term.signal", "no handler", fmt.Sprintf("nothing is registered for %v", sig))
		}
	}
	if first {
		for ci := range p.Clients {
			ci := ci
			cwg.Add(1)
			sim.GoNamed(fmt.Sprintf("client%d", ci), "client", func() {
				defer cwg.Done()
				late := false
				for _, op := range p.Clients[ci] {
					if len(w.out.Viol) > 0 {
						return
					}
					if w.stopping && !simrt.Listening(w.listen) {
						// the listener is closed; the connection this client holds may still carry one request (see simrt.Deliver)
						if late || op.K == "sleep" || op.K == "gcprobe" || op.K == "manysessions" || op.K == "flood" {
							return
						}
						late = true
					}
					if ci == 0 {
						w.ownerOp(op)
					} else if !w.readerOp(ci, op) {
						return
					}
				}
			})
		}
		if p.TermMs >= 0 {
			cwg.Add(1)
			sim.GoNamed("killer", "client", func() {
				defer cwg.Done()
				simrt.Sleep(time.Duration(p.TermMs) * time.Millisecond)
				w.out.Probes["signal-with-clients-running"]++
				kill()
			})
		}
		cwg.Wait()
		w.rateOracle()
	} else {
		// the second process: everything acknowledged before is served
		for _, d := range sortedKeys(w.blobs) {
			r := w.do(0, "GET", "/v2/"+repoName+"/blobs/"+d, "", nil, nil, 0, lOp{})
			w.checkRead("blob (second process)", d, r, w.blobs)
		}
		for _, d := range sortedKeys(w.mans) {
			r := w.do(0, "GET", "/v2/"+repoName+"/manifests/"+d, "", http.Header{"Accept": {mtManifest, mtIndex}}, nil, 0, lOp{})
			w.checkRead("manifest (second process)", d, r, w.mans)
		}
		w.out.Probes["second-process-read"]++
	}
	kill()
	// the process must end by itself, in bounded time
	limit := time.Minute
	for _, ops := range p.Clients {
		for _, op := range ops {
			limit += 2 * time.Duration(op.Ms) * time.Millisecond
		}
	}
	wd := simrt.AfterFunc(limit, func() {
		w.viol("term.hang", "serve does not return", fmt.Sprintf("%s after the signal the serve command has not returned:\n%s", limit, strings.Join(sim.Dump(), "\n")))
		sim.Abort("liveness: serve does not return")
	})
	swg.Wait()
	wd.Stop()
	if n := abandoned; n > 0 {
		w.viol("term.request-abandoned", "serve returned with requests in flight", fmt.Sprintf("the serve command returned while %d request(s) were still being handled: the process exits and cuts them off (an upload leaves its file behind)", n))
	}
	if serveErr != nil {
		w.viol("term.exit", "error", fmt.Sprintf("the serve command returned an error after the signal: %v", serveErr))
	}
	if simrt.Listening(w.listen) {
		w.viol("term.exit", "still listening", "the serve command returned but the listener is still open")
	}
	sim.WaitIdle()
	if p.Lib != nil && w.set.store == "mem" && p.Lib["no-root"] != "" {
		if n := sim.FS.N; n > 0 {
			ev := sim.FS.Log[0]
			w.viol("config.store-type", "memory store without a directory uses the filesystem", fmt.Sprintf("StoreMem with RootDir unset: %d filesystem operations, the first: %s %s", n, ev.Op, ev.Path))
		}
		w.out.Probes["mem-without-directory"]++
	}
	if w.set.gcFreq > 0 && !w.set.ro {
		w.markCollectable()
	}
	if !w.set.ro {
		w.markCollectable() // closing the store collects
	}
	w.storageIntact(map[bool]string{true: "after the first process ended", false: "after the second process ended"}[first])
	w.out.Probes["clean-exit-checked"]++
}

// ---------------------------------------------------------------------------------------------
// worker (same protocol as the other harnesses)

type workerSummary struct {
	Prop       string            `json:"prop"`
	Worker     int               `json:"worker"`
	Runs       int               `json:"runs"`
	NonTrivial int               `json:"nontrivial"`
	Fps        []string          `json:"fps"`
	States     []string          `json:"states"`
	Steps      int64             `json:"steps"`
	Choices    int64             `json:"choices"`
	SimSec     float64           `json:"sim_sec"`
	Requests   int64             `json:"requests"`
	Probes     map[string]int    `json:"probes"`
	Strats     map[string]int    `json:"strats"`
	Profiles   map[string]int    `json:"profiles"`
	Known      map[string]int    `json:"known"`
	Violations []violationReport `json:"violations"`
	Observed   map[string]int    `json:"observed"`
	Infra      []string          `json:"infra"`
	Samples    []json.RawMessage `json:"samples"`
	Rechecks   int               `json:"rechecks"`
	Mismatch   int               `json:"recheck_mismatch"`
	WallS      float64           `json:"wall_s"`
	Minim      []map[string]int  `json:"minimised"`
	Seeds      []uint64          `json:"seeds_first"`
}

type violationReport struct {
	Sig    string `json:"sig"`
	Oracle string `json:"oracle"`
	Seed   uint64 `json:"seed"`
	Replay string `json:"replay"`
	Detail string `json:"detail"`
}

type knownFinding struct {
	Property  string `json:"property"`
	Signature string `json:"signature"`
	Status    string `json:"status"`
}

func loadKnown(path string) []knownFinding {
	var kf struct {
		Findings []knownFinding `json:"findings"`
	}
	b, err := os.ReadFile(path)
	if err != nil {
		return nil
	}
	_ = json.Unmarshal(b, &kf)
	return kf.Findings
}

func wildMatch(pat, s string) bool {
	parts := strings.Split(pat, "*")
	if len(parts) == 1 {
		return pat == s
	}
	if !strings.HasPrefix(s, parts[0]) {
		return false
	}
	s = s[len(parts[0]):]
	for i := 1; i < len(parts)-1; i++ {
		j := strings.Index(s, parts[i])
		if j < 0 {
			return false
		}
		s = s[j+len(parts[i]):]
	}
	return strings.HasSuffix(s, parts[len(parts)-1])
}

func isKnown(kf []knownFinding, sig string) bool {
	for _, k := range kf {
		if k.Status == "known" && k.Property == "C19" && wildMatch(k.Signature, sig) {
			return true
		}
	}
	return false
}

func envInt(name string, def int) int {
	if v := os.Getenv(name); v != "" {
		if n, err := strconv.Atoi(v); err == nil {
			return n
		}
	}
	return def
}

type replayDoc struct {
	Property  string         `json:"property"`
	Oracle    string         `json:"oracle"`
	Signature string         `json:"signature"`
	Seed      uint64         `json:"seed"`
	Engine    string         `json:"engine"`
	Plan      *lPlan         `json:"plan"`
	Violation violation      `json:"violation"`
	EventHash string         `json:"event_log_hash"`
	Minimised map[string]int `json:"minimised"`
}

func findViol(out *runOut, sig string) (violation, bool) {
	for _, v := range out.Viol {
		if v.Sig == sig {
			return v, true
		}
	}
	return violation{}, false
}

func minimise(t *testing.T, p *lPlan, v violation) (*lPlan, map[string]int, violation) {
	best := p.clone()
	best.Fixed = true
	nops := func(q *lPlan) int {
		n := 0
		for _, c := range q.Clients {
			n += len(c)
		}
		return n
	}
	st := map[string]int{"from_ops": nops(p), "from_sched": len(p.Sched), "from_flags": len(p.Set)}
	reruns := 0
	try := func(c *lPlan) bool {
		if reruns > 200 {
			return false
		}
		reruns++
		c.Fixed = true
		out := runPlan(t, c)
		if nv, ok := findViol(out, v.Sig); ok {
			best, v = c, nv
			return true
		}
		return false
	}
	if !try(best.clone()) {
		q := p.clone()
		q.Fixed = true
		return q, st, v
	}
	// other clients (their addresses stay aligned with their index)
	for ci := len(best.Clients) - 1; ci >= 1; ci-- {
		c := best.clone()
		c.Clients = append(c.Clients[:ci], c.Clients[ci+1:]...)
		c.Addrs = append(c.Addrs[:ci], c.Addrs[ci+1:]...)
		try(c)
	}
	for ci := range best.Clients {
		for i := 0; i < len(best.Clients[ci]); {
			c := best.clone()
			c.Clients[ci] = append(append([]lOp{}, c.Clients[ci][:i]...), c.Clients[ci][i+1:]...)
			if !try(c) {
				i++
			}
		}
	}
	// flags that do not matter
	for _, k := range sortedKeys(best.Set) {
		c := best.clone()
		delete(c.Set, k)
		try(c)
	}
	if best.Restart {
		c := best.clone()
		c.Restart = false
		try(c)
	}
	for n := len(best.Sched) / 2; n >= 1; n /= 2 {
		for len(best.Sched) > 0 {
			c := best.clone()
			keep := len(c.Sched) - n
			if keep < 0 {
				keep = 0
			}
			c.Sched = c.Sched[:keep]
			if !try(c) {
				break
			}
		}
	}
	st["to_ops"], st["to_sched"], st["to_flags"], st["reruns"] = nops(best), len(best.Sched), len(best.Set), reruns
	return best, st, v
}

func TestVerif(t *testing.T) {
	if rp := os.Getenv("VERIF_REPLAY"); rp != "" {
		b, err := os.ReadFile(rp)
		if err != nil {
			t.Fatal(err)
		}
		doc := replayDoc{}
		if err := json.Unmarshal(b, &doc); err != nil {
			t.Fatal(err)
		}
		doc.Plan.Fixed = true
		out := runPlan(t, doc.Plan)
		res := map[string]any{"reproduced": false, "same_event_log": fmt.Sprintf("%016x", out.EventHash) == doc.EventHash, "infra": out.Infra}
		if v, ok := findViol(out, doc.Signature); ok {
			res["reproduced"], res["violation"] = true, v
		} else {
			res["violations_seen"] = out.Viol
		}
		rb, _ := json.MarshalIndent(res, "", " ")
		if o := os.Getenv("VERIF_OUT"); o != "" {
			_ = os.WriteFile(o, rb, 0644)
		}
		fmt.Println(string(rb))
		return
	}
	if os.Getenv("VERIF_PROP") != "C19" {
		t.Skip("VERIF_PROP is not C19")
	}
	tier := os.Getenv("VERIF_TIER")
	if tier == "" {
		tier = "quick"
	}
	base := uint64(envInt("VERIF_SEED", 1))
	worker, nworkers := envInt("VERIF_WORKER", 0), envInt("VERIF_NWORKERS", 1)
	deadline := time.Unix(int64(envInt("VERIF_DEADLINE", int(time.Now().Unix())+30)), 0)
	maxRuns := envInt("VERIF_MAXRUNS", 1<<30)
	known := loadKnown(os.Getenv("VERIF_KNOWN"))
	replayDir := os.Getenv("VERIF_REPLAYDIR")
	hashOut := os.Getenv("VERIF_HASHES")
	var hashLines []string
	sum := &workerSummary{Prop: "C19", Worker: worker, Probes: map[string]int{}, Strats: map[string]int{}, Profiles: map[string]int{}, Known: map[string]int{}, Observed: map[string]int{}}
	fps := map[uint64]bool{}
	seen := map[string]bool{}
	t0 := time.Now()
	bad := 0
	for i := 0; i < maxRuns; i++ {
		idx := worker + i*nworkers
		if time.Now().After(deadline) {
			break
		}
		p := makePlan(base, tier, idx)
		orig := p.clone()
		if d := os.Getenv("VERIF_DUMPPLAN"); d != "" {
			pb, _ := json.MarshalIndent(p, "", " ")
			_ = os.WriteFile(fmt.Sprintf("%s.%d.json", d, idx), pb, 0644)
		}
		out := runPlan(t, p)
		sum.Runs++
		if len(sum.Seeds) < 5 {
			sum.Seeds = append(sum.Seeds, p.Seed)
		}
		if hashOut != "" {
			hashLines = append(hashLines, fmt.Sprintf("%d %016x %016x %d %d", idx, out.EventHash, out.Fp, out.Steps, len(out.Viol)))
		}
		if out.Infra != "" {
			bad++
			if len(sum.Infra) < 5 {
				sum.Infra = append(sum.Infra, fmt.Sprintf("seed=%d idx=%d: %s", p.Seed, idx, out.Infra))
			}
		}
		sum.Steps += int64(out.Steps)
		sum.Choices += int64(out.Choices)
		sum.SimSec += out.SimSec
		sum.Requests += int64(out.Requests)
		sum.Strats[p.Strat.Kind]++
		sum.Profiles[p.Profile]++
		for k, v := range out.Probes {
			sum.Probes[k] += v
		}
		if out.NonTrivial {
			sum.NonTrivial++
			fps[out.Fp] = true
		}
		if len(sum.Samples) < 2 && out.NonTrivial {
			sum.Samples = append(sum.Samples, json.RawMessage(out.Sample))
		}
		if hashOut == "" && idx%50 == 7 && len(out.Viol) == 0 && out.Infra == "" {
			out2 := runPlan(t, orig)
			sum.Rechecks++
			if out2.EventHash != out.EventHash {
				sum.Mismatch++
				sum.Infra = append(sum.Infra, fmt.Sprintf("nondeterministic run seed=%d idx=%d", p.Seed, idx))
			}
		}
		for _, v := range out.Viol {
			if os.Getenv("VERIF_DEBUG") != "" && !seen["dbg"+v.Sig] {
				seen["dbg"+v.Sig] = true
				fmt.Printf("DEBUG viol idx=%d seed=%d sig=%s\n   %s\n   flags=%v\n", idx, p.Seed, v.Sig, v.Detail, p.Set)
			}
			speaks := false
			for _, pr := range v.Props {
				if pr == "C19" {
					speaks = true
				}
			}
			if !speaks {
				sum.Observed[v.Oracle]++
				continue
			}
			if isKnown(known, v.Sig) {
				sum.Known[v.Sig]++
				continue
			}
			if seen[v.Sig] {
				continue
			}
			seen[v.Sig] = true
			rep := violationReport{Sig: v.Sig, Oracle: v.Oracle, Seed: p.Seed, Detail: v.Detail}
			if replayDir != "" {
				mp, st, mv := minimise(t, p, v)
				sum.Minim = append(sum.Minim, st)
				_ = os.MkdirAll(replayDir, 0755)
				c := mp.clone()
				c.Fixed = true
				o2 := runPlan(t, c)
				doc := replayDoc{Property: "C19", Oracle: mv.Oracle, Signature: mv.Sig, Seed: p.Seed, Engine: "cli", Plan: c, Violation: mv, EventHash: fmt.Sprintf("%016x", o2.EventHash), Minimised: st}
				b, _ := json.MarshalIndent(doc, "", " ")
				h := fnv.New32a()
				h.Write([]byte(mv.Sig))
				name := fmt.Sprintf("%s/C19-%d-%08x.json", replayDir, p.Seed, h.Sum32())
				_ = os.WriteFile(name, b, 0644)
				rep.Replay, rep.Detail = name, mv.Detail
			}
			sum.Violations = append(sum.Violations, rep)
		}
		if len(sum.Violations) >= 3 || bad > 200 {
			break
		}
	}
	for f := range fps {
		sum.Fps = append(sum.Fps, strconv.FormatUint(f, 16))
	}
	sort.Strings(sum.Fps)
	sum.WallS = time.Since(t0).Seconds()
	if hashOut != "" {
		_ = os.WriteFile(hashOut, []byte(strings.Join(hashLines, "\n")+"\n"), 0644)
	}
	if o := os.Getenv("VERIF_OUT"); o != "" {
		b, _ := json.Marshal(sum)
		if err := os.WriteFile(o, b, 0644); err != nil {
			t.Fatalf("write summary: %v", err)
		}
	}
}
