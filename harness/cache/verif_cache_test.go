//go:build go1.25

//go:debug asynctimerchan=0
package cache

// C20: the bounded cache never drops an entry without its cleanup. Harness injected into
// internal/cache by /verif/bin/check (never present in /repo): 1-4 tasks issue
// Set/Get/Delete/DeleteAll/List/IsEmpty on few keys under the seeded scheduler and the fake clock;
// the cleanup callback succeeds, fails or blocks as the plan says; every call is logged and the
// log is judged afterwards.

import (
	"encoding/json"
	"fmt"
	"hash/fnv"
	"os"
	"sort"
	"strconv"
	"strings"
	"testing"
	"testing/synctest"
	"time"

	"github.com/olareg/olareg/internal/simrt"
)

type cOp struct {
	K   string `json:"k"` // set, get, del, delall, list, empty, sleep
	Key int    `json:"key,omitempty"`
	Ms  int64  `json:"ms,omitempty"`
}

type cPlan struct {
	Prop     string         `json:"prop"`
	Engine   string         `json:"engine"`
	Profile  string         `json:"profile"`
	Seed     uint64         `json:"seed"`
	Tier     string         `json:"tier"`
	AgeMs    int64          `json:"age_ms"`
	Count    int            `json:"count"`
	FailPct  int            `json:"fail_pct"`
	FailFirst int           `json:"fail_first,omitempty"` // >0: only the first so many cleanup calls may fail, all later ones succeed
	BlockPct int            `json:"block_pct"`
	NoFn     bool           `json:"no_prune_fn,omitempty"`
	Clients  [][]cOp        `json:"clients"`
	Strat    simrt.Strategy `json:"strat"`
	Sched    []uint32       `json:"sched,omitempty"`
	MapOrder []uint32       `json:"maporder,omitempty"`
	Entropy  []uint32       `json:"entropy,omitempty"`
	Beh      []uint32       `json:"beh,omitempty"`
	Fixed    bool           `json:"fixed,omitempty"`
}

func (p *cPlan) clone() *cPlan {
	b, _ := json.Marshal(p)
	q := &cPlan{}
	_ = json.Unmarshal(b, q)
	return q
}

type violation struct {
	Props  []string `json:"props"`
	Oracle string   `json:"oracle"`
	Sig    string   `json:"sig"`
	Detail string   `json:"detail"`
}

type event struct {
	seq, end int64
	task     string
	kind     string // set get del delall list empty cleanup
	key      int
	val      int // value set / returned / passed to cleanup (0 none)
	ok       bool
	at0      time.Time // when the operation was invoked
	at       time.Time // when it returned (the cache stamps "used" somewhere in between)
	keys     []int
	caller   string // for cleanup: "timer", "count", "delete", "deleteall"
	inv      int    // for cleanup: id of the pruning invocation (task key)
}

type runOut struct {
	Viol       []violation
	Fp         uint64
	NonTrivial bool
	Steps      int
	Choices    int
	SimSec     float64
	Probes     map[string]int
	Infra      string
	EventHash  uint64
	Sample     string
}

type rng struct{ s uint64 }

func splitmix(x uint64) uint64 {
	x += 0x9e3779b97f4a7c15
	z := x
	z = (z ^ (z >> 30)) * 0xbf58476d1ce4e5b9
	z = (z ^ (z >> 27)) * 0x94d049bb133111eb
	return z ^ (z >> 31)
}
func (r *rng) u64() uint64 { r.s += 0x9e3779b97f4a7c15; return splitmix(r.s) }
func (r *rng) intn(n int) int {
	if n <= 1 {
		return 0
	}
	return int(r.u64() % uint64(n))
}
func (r *rng) pick(v ...int) int { return v[r.intn(len(v))] }

func seedFor(base uint64, prop string, idx int) uint64 {
	h := fnv.New64a()
	h.Write([]byte(prop))
	return splitmix(splitmix(base)^h.Sum64()) ^ splitmix(uint64(idx)*0x9e3779b97f4a7c15+1)
}

func makePlan(base uint64, tier string, idx int) *cPlan {
	seed := seedFor(base, "C20", idx)
	r := &rng{s: splitmix(seed ^ 0xabcdef)}
	p := &cPlan{Prop: "C20", Engine: "cache", Seed: seed, Tier: tier}
	p.AgeMs = int64(r.pick(0, 0, 10, 100, 1000))
	p.Count = r.pick(0, 1, 2, 3, 10)
	if p.AgeMs == 0 && p.Count == 0 {
		p.Count = r.pick(1, 2, 3)
	}
	switch r.intn(4) {
	case 0:
		p.FailPct, p.BlockPct = 0, 0
		p.Profile = "cleanups succeed"
	case 1:
		p.FailPct, p.BlockPct = r.pick(10, 30, 60), 0
		p.Profile = "cleanups fail sometimes"
	case 2:
		p.FailPct, p.BlockPct = 0, r.pick(20, 50)
		p.Profile = "cleanups block sometimes"
	default:
		p.FailPct, p.BlockPct = r.pick(10, 30), r.pick(10, 30)
		p.Profile = "cleanups fail or block"
	}
	if r.intn(10) == 0 {
		p.NoFn = true
		p.Profile = "no cleanup function"
	}
	recover := !p.NoFn && p.FailPct > 0 && idx%3 == 0
	if recover {
		// cleanups fail for a while (entries pile up above the limit), then all of them succeed: the next insertion beyond
		// the limit is followed by pruning back to it
		p.Profile += ", then all succeed"
		p.FailPct, p.FailFirst = r.pick(60, 90, 100), r.pick(2, 3, 5, 9)
		p.Count = r.pick(1, 2, 3)
	}
	nkeys := r.pick(1, 2, 3, 6)
	nc := r.pick(1, 2, 2, 3, 4)
	scale := 1
	if tier == "thorough" {
		scale = 2
	}
	for c := 0; c < nc; c++ {
		var ops []cOp
		n := (3 + r.intn(10)) * scale
		for i := 0; i < n; i++ {
			k := 1 + r.intn(nkeys)
			switch r.intn(12) {
			case 0, 1, 2, 3:
				ops = append(ops, cOp{K: "set", Key: k})
			case 4, 5:
				ops = append(ops, cOp{K: "get", Key: k})
			case 6, 7:
				ops = append(ops, cOp{K: "del", Key: k})
			case 8:
				if r.intn(3) == 0 {
					ops = append(ops, cOp{K: "delall"})
				} else {
					ops = append(ops, cOp{K: "list"})
				}
			case 9:
				ops = append(ops, cOp{K: "empty"})
			default:
				age := p.AgeMs
				if age == 0 {
					age = 10
				}
				ops = append(ops, cOp{K: "sleep", Ms: age * int64(r.pick(1, 5, 9, 11, 12, 25)) / 10})
			}
		}
		p.Clients = append(p.Clients, ops)
	}
	if recover {
		// keys nobody used before, inserted once everything else is over
		wait := int64(50)
		for _, ops := range p.Clients {
			for _, op := range ops {
				wait += op.Ms + 1
			}
		}
		tail := []cOp{{K: "sleep", Ms: wait}}
		for i := 0; i < p.FailFirst+p.Count+2; i++ {
			tail = append(tail, cOp{K: "set", Key: 1000 + i}, cOp{K: "sleep", Ms: 1})
		}
		p.Clients = append(p.Clients, tail)
	}
	switch r.intn(5) {
	case 0:
		p.Strat = simrt.Strategy{Kind: "uniform"}
	case 1:
		p.Strat = simrt.Strategy{Kind: "sticky", Sticky: r.pick(50, 80, 95)}
	case 2:
		p.Strat = simrt.Strategy{Kind: "pct", Depth: 1 + r.intn(3), Horizon: r.pick(50, 200, 800)}
	case 3:
		p.Strat = simrt.Strategy{Kind: "seq", Preempt: r.intn(4), Horizon: r.pick(50, 200, 800)}
	default:
		p.Strat = simrt.Strategy{Kind: "starve", Class: []string{"timer", "go", "client"}[r.intn(3)]}
	}
	return p
}

var errCleanup = fmt.Errorf("cleanup failed (injected)")

func runPlan(t *testing.T, p *cPlan) (out *runOut) {
	out = &runOut{Probes: map[string]int{}}
	mk := func(vals []uint32, salt uint64) *simrt.Stream {
		st := simrt.NewStream(p.Seed ^ salt)
		st.Vals = append([]uint32(nil), vals...)
		st.Fixed = p.Fixed
		return st
	}
	sched, mo, ent, beh := mk(p.Sched, 0x1111), mk(p.MapOrder, 0x2222), mk(p.Entropy, 0x3333), mk(p.Beh, 0x5555)
	var sim *simrt.Sim
	var res simrt.Result
	var log []event
	ncl := 0 // cleanup calls so far
	var seq int64
	var start time.Time
	nextVal := 0
	body := func(t *testing.T) {
		sim = simrt.New(sched, mo, ent)
		sim.SetStrategy(p.Strat)
		start = time.Now()
		opts := Opts[int, int]{Age: time.Duration(p.AgeMs) * time.Millisecond, Count: p.Count}
		if !p.NoFn {
			opts.PruneFn = func(k, v int) error {
				seq++
				ev := event{seq: seq, kind: "cleanup", key: k, val: v, at: time.Now(), at0: time.Now()}
				if cur := simrt.Cur(); cur != nil {
					ev.task = cur.Name
					ev.inv = int(cur.Key)
					switch {
					case strings.HasPrefix(cur.Name, "timer"):
						ev.caller = "timer"
					case strings.Contains(cur.Name, "pruneCount"):
						ev.caller = "count"
					default:
						ev.caller = "explicit"
					}
				}
				b := int(beh.Next() % 100)
				ncl++
				switch {
				case b < p.FailPct && (p.FailFirst == 0 || ncl <= p.FailFirst):
					ev.ok = false
				case b < p.FailPct+p.BlockPct:
					// block: the task parks for a simulated moment (other tasks run meanwhile), then succeeds
					simrt.Sleep(time.Duration(1+b%7) * time.Millisecond)
					ev.ok = true
					out.Probes["cleanup-blocked"]++
				default:
					ev.ok = true
				}
				seq++
				ev.end = seq
				log = append(log, ev)
				if !ev.ok {
					out.Probes["cleanup-failed"]++
					return errCleanup
				}
				return nil
			}
		}
		sim.GoNamed("main", "main", func() {
			c := New[int, int](opts)
			var wg simrt.WaitGroup
			wg.Add(len(p.Clients))
			for ci, ops := range p.Clients {
				ci, ops := ci, ops
				sim.GoNamed(fmt.Sprintf("client%d", ci), "client", func() {
					defer wg.Done()
					for _, op := range ops {
						seq++
						ev := event{seq: seq, task: fmt.Sprintf("client%d", ci), kind: op.K, key: op.Key, at: time.Now(), at0: time.Now()}
						switch op.K {
						case "set":
							nextVal++
							ev.val = nextVal
							c.Set(op.Key, ev.val)
							ev.ok = true
						case "get":
							v, err := c.Get(op.Key)
							ev.val, ev.ok = v, err == nil
						case "del":
							ev.ok = c.Delete(op.Key) == nil
						case "delall":
							ev.ok = c.DeleteAll() == nil
						case "list":
							ks, _ := c.List()
							sort.Ints(ks)
							ev.keys, ev.ok = ks, true
						case "empty":
							ev.ok = c.IsEmpty()
						case "sleep":
							simrt.Sleep(time.Duration(op.Ms) * time.Millisecond)
						}
						seq++
						ev.end = seq
						ev.at = time.Now()
						log = append(log, ev)
					}
				})
			}
			wd := simrt.AfterFunc(time.Hour, func() {
				out.Viol = append(out.Viol, violation{Props: []string{"C20", "C12"}, Oracle: "cache.hang", Sig: "cache.hang:clients stuck", Detail: strings.Join(sim.Dump(), "\n")})
				sim.Abort("liveness: cache clients stuck")
			})
			wg.Wait()
			wd.Stop()
			// quiescence: pruning goroutines have finished, timers that are due have fired
			sim.WaitIdle()
			seq++
			final := event{seq: seq, task: "main", kind: "final", at: time.Now()}
			ks, _ := c.List()
			sort.Ints(ks)
			final.keys = ks
			log = append(log, final)
			present := map[int]int{}
			for _, k := range ks {
				v, err := c.Get(k)
				if err == nil {
					present[k] = v
				}
			}
			judge(p, log, present, out)
			// leave no armed timer behind
			c.pruneFn = nil
			_ = c.DeleteAll()
		})
		res = sim.Run()
		out.SimSec = time.Since(start).Seconds()
	}
	func() {
		defer func() {
			if r := recover(); r != nil {
				if !res.Leaked && out.Infra == "" {
					out.Infra = "bubble panic: " + fmt.Sprint(r)
				}
			}
		}()
		synctest.Test(t, body)
	}()
	if sim == nil {
		out.Infra = "simulation did not start"
		return
	}
	if pv, st := sim.Panic(); pv != nil && out.Infra == "" {
		out.Infra = fmt.Sprintf("task panic: %v\n%s", pv, st)
	}
	if res.Deadlock != nil {
		out.Viol = append(out.Viol, violation{Props: []string{"C20", "C12"}, Oracle: "cache.deadlock", Sig: "cache.deadlock:" + strings.Join(res.CycleSig, " || "), Detail: strings.Join(res.Deadlock, "\n")})
	}
	if res.OutOfSteps && out.Infra == "" {
		out.Infra = "step budget exhausted"
	}
	out.Steps, out.Choices = sim.Steps, sim.Choices
	h := fnv.New64a()
	for _, e := range log {
		fmt.Fprintf(h, "%d|%s|%s|%d|%d|%v|%v\n", e.seq, e.task, e.kind, e.key, e.val, e.ok, e.keys)
	}
	out.EventHash = h.Sum64() ^ sim.TraceHash
	out.Fp = sim.TraceHash
	out.NonTrivial = len(log) > 4 && (out.Probes["cleanup-called"] > 0 || p.NoFn)
	p.Sched, p.MapOrder, p.Entropy, p.Beh = sched.Vals, mo.Vals, ent.Vals, beh.Vals
	nops := 0
	for _, c := range p.Clients {
		nops += len(c)
	}
	cb, _ := json.Marshal(p.Clients)
	if len(cb) > 600 {
		cb = []byte(fmt.Sprintf("%q", string(cb[:600])+"…"))
	}
	out.Sample = fmt.Sprintf(`{"seed":%d,"profile":%q,"age_ms":%d,"count":%d,"clients":%d,"ops":%d,"strategy":%q,"plan":%s,"cleanup_calls":%d}`, p.Seed, p.Profile, p.AgeMs, p.Count, len(p.Clients), nops, p.Strat.Kind, cb, out.Probes["cleanup-called"])
	return
}

// judge applies the C20 oracles to the log. present: key -> value at quiescence.
func judge(p *cPlan, log []event, present map[int]int, out *runOut) {
	if os.Getenv("VERIF_DUMPLOG") != "" {
		for _, e := range log {
			fmt.Printf("EV seq=%d end=%d task=%s kind=%s key=%d val=%d ok=%v at0=%s at=%s caller=%s inv=%d keys=%v\n", e.seq, e.end, e.task, e.kind, e.key, e.val, e.ok, e.at0.Format("05.000000"), e.at.Format("05.000000"), e.caller, e.inv, e.keys)
		}
	}
	age := time.Duration(p.AgeMs) * time.Millisecond
	type setInfo struct {
		ev event
	}
	sets := map[int][]event{} // key -> sets
	var cleanups []event
	anyFailed := false
	for _, e := range log {
		switch e.kind {
		case "set":
			sets[e.key] = append(sets[e.key], e)
		case "cleanup":
			cleanups = append(cleanups, e)
			out.Probes["cleanup-called"]++
			out.Probes["cleanup-by-"+e.caller]++
			if !e.ok {
				anyFailed = true
			}
		}
	}
	viol := func(oracle, sig, detail string) {
		out.Viol = append(out.Viol, violation{Props: []string{"C20"}, Oracle: oracle, Sig: oracle + ":" + sig, Detail: detail})
	}
	cleanedOK := map[[2]int]bool{}
	for _, c := range cleanups {
		if c.ok {
			cleanedOK[[2]int{c.key, c.val}] = true
		}
	}
	// (a) every value that is gone at quiescence was cleaned up successfully, or may have been overwritten by a later Set
	if !p.NoFn {
		for k, ss := range sets {
			for _, s := range ss {
				if present[k] == s.val || cleanedOK[[2]int{k, s.val}] {
					continue
				}
				overwritten := false
				for _, o := range ss {
					if o.val != s.val && o.end > s.seq { // o did not finish before s started: it may be ordered after s
						overwritten = true
					}
				}
				if overwritten {
					continue
				}
				how := describeLoss(log, k, s)
				viol("cache.removed-without-cleanup", how, fmt.Sprintf("value %d (key %d, Set at event %d by %s) is gone at quiescence (present: %v) although no cleanup for it ever succeeded and no later Set could have replaced it; %s", s.val, k, s.seq, s.task, present, how))
				return
			}
		}
	}
	// (b) an entry whose cleanup failed (and never succeeded later) is still present, unless a later Set replaced it
	for _, c := range cleanups {
		if c.ok || cleanedOK[[2]int{c.key, c.val}] || present[c.key] == c.val {
			continue
		}
		replaced := false
		for _, o := range sets[c.key] {
			if o.val != c.val && o.end > c.seq {
				replaced = true
			}
			if o.val != c.val {
				// the failed cleanup concerned a value that another Set may have overwritten before
				for _, s := range sets[c.key] {
					if s.val == c.val && o.end > s.seq {
						replaced = true
					}
				}
			}
		}
		if !replaced {
			viol("cache.dropped-after-failed-cleanup", "by "+c.caller, fmt.Sprintf("cleanup of value %d (key %d) failed at event %d (called by %s) and never succeeded, yet the value is gone at quiescence (present: %v)", c.val, c.key, c.seq, c.caller, present))
			return
		}
	}
	// (c) no early expiry: a timer-triggered cleanup is only attempted on an entry unused for at least Age
	for _, c := range cleanups {
		if c.caller != "timer" || age <= 0 {
			continue
		}
		var last time.Time
		found := false
		for _, e := range log {
			// (the entry was stamped no earlier than the invocation of the operation that used it)
			if e.end != 0 && e.end < c.seq && e.key == c.key && ((e.kind == "set") || (e.kind == "get" && e.ok)) {
				if e.at0.After(last) {
					last = e.at0
				}
				found = true
			}
		}
		if found && c.at.Sub(last) < age {
			viol("cache.early-expiry", "timer", fmt.Sprintf("age-triggered cleanup of key %d (value %d) at %s after its last use, configured age %s", c.key, c.val, c.at.Sub(last), age))
			return
		}
	}
	// (d) count-triggered eviction proceeds in least-recently-used order (within one pruning pass)
	byInv := map[int][]event{}
	for _, c := range cleanups {
		if c.caller == "count" {
			byInv[c.inv] = append(byInv[c.inv], c)
		}
	}
	// The cache stamps an entry somewhere between the invocation and the return of the operation that uses it, and an
	// operation that was invoked before the pass and had not returned may or may not have stamped it: the last use of a
	// key is only known as an interval [lo, hi]. Order is demanded only where the intervals cannot overlap.
	lastUse := func(c event) (lo, hi time.Time, found bool) {
		for _, e := range log {
			if e.key != c.key || e.seq >= c.seq {
				continue
			}
			uses := e.kind == "set" || (e.kind == "get" && (e.ok || e.end == 0 || e.end > c.seq)) || (e.kind == "cleanup" && !e.ok && e.caller != "explicit")
			if !uses {
				continue
			}
			if e.end != 0 && e.end < c.seq {
				found = true
				from := e.at0
				if e.kind == "cleanup" && e.caller == "timer" {
					// an age-triggered pass stamps a failed cleanup with the time the pass began, not the time of the attempt
					for _, f := range log {
						if f.kind == "cleanup" && f.inv == e.inv && f.at0.Before(from) {
							from = f.at0
						}
					}
				}
				if from.After(lo) {
					lo = from
				}
				if e.at.After(hi) {
					hi = e.at
				}
			} else if c.at.After(hi) {
				hi = c.at // in flight when this cleanup was attempted
			}
		}
		return lo, hi, found
	}
	for _, cs := range byInv {
		for i := 1; i < len(cs); i++ {
			aLo, _, oka := lastUse(cs[i-1])
			_, bHi, okb := lastUse(cs[i])
			if oka && okb && bHi.Before(aLo) {
				viol("cache.lru-order", "count", fmt.Sprintf("count-triggered pruning attempted key %d (last used no earlier than %s) before key %d (last used no later than %s)", cs[i-1].key, aLo.Format("15:04:05.000000"), cs[i].key, bHi.Format("15:04:05.000000")))
				return
			}
		}
	}
	// (e') … and so it does when the last failure is over and a key never used before was inserted afterwards: that
	// insertion is beyond the limit or it is not, either way pruning (all cleanups succeeding now) ends at the limit
	if p.Count > 0 && anyFailed && len(present) > p.Count {
		lastFail := int64(0)
		for _, c := range cleanups {
			if !c.ok && c.end > lastFail {
				lastFail = c.end
			}
		}
		for _, e := range log {
			if e.kind == "set" && e.key >= 1000 && e.seq > lastFail {
				viol("cache.unbounded", fmt.Sprintf("limit %d, after cleanups recovered", p.Count), fmt.Sprintf("%d entries remain at quiescence, the configured count is %d; the last failed cleanup ended at event %d and key %d was inserted at event %d, after it", len(present), p.Count, lastFail, e.key, e.seq))
				break
			}
		}
	}
	// (e) bound: with every cleanup succeeding, quiescence finds at most Count entries
	if p.Count > 0 && !anyFailed && len(present) > p.Count {
		viol("cache.unbounded", fmt.Sprintf("limit %d", p.Count), fmt.Sprintf("%d entries remain at quiescence, the configured count is %d and no cleanup failed", len(present), p.Count))
	}
}

func describeLoss(log []event, k int, s event) string {
	// which operations on the key overlap the Set?
	var over []string
	for _, e := range log {
		if e.key == k && e.seq != s.seq && e.kind != "cleanup" && e.seq < s.end && e.end > s.seq {
			over = append(over, e.kind)
		}
	}
	sort.Strings(over)
	if len(over) == 0 {
		return "no operation on the key overlaps the Set"
	}
	return "Set overlaps " + strings.Join(over, ",")
}

// ---------------------------------------------------------------------------------------------
// worker (same protocol as the olareg harness)

type workerSummary struct {
	Prop       string            `json:"prop"`
	Worker     int               `json:"worker"`
	Runs       int               `json:"runs"`
	NonTrivial int               `json:"nontrivial"`
	Fps        []string          `json:"fps"`
	States     []string          `json:"states"`
	Steps      int64             `json:"steps"`
	Choices    int64             `json:"choices"`
	SimSec     float64           `json:"sim_sec"`
	Probes     map[string]int    `json:"probes"`
	Strats     map[string]int    `json:"strats"`
	Profiles   map[string]int    `json:"profiles"`
	Known      map[string]int    `json:"known"`
	Violations []violationReport `json:"violations"`
	Observed   map[string]int    `json:"observed"`
	Infra      []string          `json:"infra"`
	Samples    []json.RawMessage `json:"samples"`
	Rechecks   int               `json:"rechecks"`
	Mismatch   int               `json:"recheck_mismatch"`
	WallS      float64           `json:"wall_s"`
	Minim      []map[string]int  `json:"minimised"`
	Seeds      []uint64          `json:"seeds_first"`
}

type violationReport struct {
	Sig    string `json:"sig"`
	Oracle string `json:"oracle"`
	Seed   uint64 `json:"seed"`
	Replay string `json:"replay"`
	Detail string `json:"detail"`
}

type knownFinding struct {
	Property  string `json:"property"`
	Signature string `json:"signature"`
	Status    string `json:"status"`
}

func loadKnown(path string) []knownFinding {
	var kf struct {
		Findings []knownFinding `json:"findings"`
	}
	b, err := os.ReadFile(path)
	if err != nil {
		return nil
	}
	_ = json.Unmarshal(b, &kf)
	return kf.Findings
}

func wildMatch(pat, s string) bool {
	parts := strings.Split(pat, "*")
	if len(parts) == 1 {
		return pat == s
	}
	if !strings.HasPrefix(s, parts[0]) {
		return false
	}
	s = s[len(parts[0]):]
	for i := 1; i < len(parts)-1; i++ {
		j := strings.Index(s, parts[i])
		if j < 0 {
			return false
		}
		s = s[j+len(parts[i]):]
	}
	return strings.HasSuffix(s, parts[len(parts)-1])
}

func isKnown(kf []knownFinding, sig string) bool {
	for _, k := range kf {
		if k.Status == "known" && k.Property == "C20" && wildMatch(k.Signature, sig) {
			return true
		}
	}
	return false
}

func envInt(name string, def int) int {
	if v := os.Getenv(name); v != "" {
		if n, err := strconv.Atoi(v); err == nil {
			return n
		}
	}
	return def
}

type replayDoc struct {
	Property  string    `json:"property"`
	Oracle    string    `json:"oracle"`
	Signature string    `json:"signature"`
	Seed      uint64    `json:"seed"`
	Engine    string    `json:"engine"`
	Plan      *cPlan    `json:"plan"`
	Violation violation `json:"violation"`
	EventHash string    `json:"event_log_hash"`
	Minimised map[string]int `json:"minimised"`
}

func findViol(out *runOut, sig string) (violation, bool) {
	for _, v := range out.Viol {
		if v.Sig == sig {
			return v, true
		}
	}
	return violation{}, false
}

func minimise(t *testing.T, p *cPlan, v violation) (*cPlan, map[string]int, violation) {
	best := p.clone()
	best.Fixed = true
	nops := func(q *cPlan) int {
		n := 0
		for _, c := range q.Clients {
			n += len(c)
		}
		return n
	}
	st := map[string]int{"from_ops": nops(p), "from_sched": len(p.Sched)}
	reruns := 0
	try := func(c *cPlan) bool {
		if reruns > 300 {
			return false
		}
		reruns++
		c.Fixed = true
		out := runPlan(t, c)
		if nv, ok := findViol(out, v.Sig); ok {
			best, v = c, nv
			return true
		}
		return false
	}
	if !try(best.clone()) {
		q := p.clone()
		q.Fixed = true
		return q, st, v
	}
	for ci := len(best.Clients) - 1; ci >= 0 && len(best.Clients) > 1; ci-- {
		c := best.clone()
		c.Clients = append(c.Clients[:ci], c.Clients[ci+1:]...)
		try(c)
	}
	for ci := range best.Clients {
		for i := 0; i < len(best.Clients[ci]); {
			c := best.clone()
			c.Clients[ci] = append(append([]cOp{}, c.Clients[ci][:i]...), c.Clients[ci][i+1:]...)
			if !try(c) {
				i++
			}
		}
	}
	for n := len(best.Sched) / 2; n >= 1; n /= 2 {
		for len(best.Sched) > 0 {
			c := best.clone()
			keep := len(c.Sched) - n
			if keep < 0 {
				keep = 0
			}
			c.Sched = c.Sched[:keep]
			if !try(c) {
				break
			}
		}
	}
	st["to_ops"], st["to_sched"], st["reruns"] = nops(best), len(best.Sched), reruns
	return best, st, v
}

func TestVerif(t *testing.T) {
	if rp := os.Getenv("VERIF_REPLAY"); rp != "" {
		b, err := os.ReadFile(rp)
		if err != nil {
			t.Fatal(err)
		}
		doc := replayDoc{}
		if err := json.Unmarshal(b, &doc); err != nil {
			t.Fatal(err)
		}
		doc.Plan.Fixed = true
		out := runPlan(t, doc.Plan)
		res := map[string]any{"reproduced": false, "same_event_log": fmt.Sprintf("%016x", out.EventHash) == doc.EventHash, "infra": out.Infra}
		if v, ok := findViol(out, doc.Signature); ok {
			res["reproduced"], res["violation"] = true, v
		}
		rb, _ := json.MarshalIndent(res, "", " ")
		if o := os.Getenv("VERIF_OUT"); o != "" {
			_ = os.WriteFile(o, rb, 0644)
		}
		fmt.Println(string(rb))
		return
	}
	if os.Getenv("VERIF_PROP") != "C20" {
		t.Skip("VERIF_PROP is not C20")
	}
	tier := os.Getenv("VERIF_TIER")
	if tier == "" {
		tier = "quick"
	}
	base := uint64(envInt("VERIF_SEED", 1))
	worker, nworkers := envInt("VERIF_WORKER", 0), envInt("VERIF_NWORKERS", 1)
	deadline := time.Unix(int64(envInt("VERIF_DEADLINE", int(time.Now().Unix())+30)), 0)
	maxRuns := envInt("VERIF_MAXRUNS", 1<<30)
	known := loadKnown(os.Getenv("VERIF_KNOWN"))
	replayDir := os.Getenv("VERIF_REPLAYDIR")
	hashOut := os.Getenv("VERIF_HASHES")
	var hashLines []string
	sum := &workerSummary{Prop: "C20", Worker: worker, Probes: map[string]int{}, Strats: map[string]int{}, Profiles: map[string]int{}, Known: map[string]int{}, Observed: map[string]int{}}
	fps := map[uint64]bool{}
	seen := map[string]bool{}
	t0 := time.Now()
	bad := 0
	for i := 0; i < maxRuns; i++ {
		idx := worker + i*nworkers
		if time.Now().After(deadline) {
			break
		}
		p := makePlan(base, tier, idx)
		orig := p.clone()
		out := runPlan(t, p)
		sum.Runs++
		if len(sum.Seeds) < 5 {
			sum.Seeds = append(sum.Seeds, p.Seed)
		}
		if hashOut != "" {
			hashLines = append(hashLines, fmt.Sprintf("%d %016x %016x %d %d", idx, out.EventHash, out.Fp, out.Steps, len(out.Viol)))
		}
		if out.Infra != "" {
			bad++
			if len(sum.Infra) < 5 {
				sum.Infra = append(sum.Infra, fmt.Sprintf("seed=%d idx=%d: %s", p.Seed, idx, out.Infra))
			}
		}
		sum.Steps += int64(out.Steps)
		sum.Choices += int64(out.Choices)
		sum.SimSec += out.SimSec
		sum.Strats[p.Strat.Kind]++
		sum.Profiles[p.Profile]++
		for k, v := range out.Probes {
			sum.Probes[k] += v
		}
		if out.NonTrivial {
			sum.NonTrivial++
			fps[out.Fp] = true
		}
		if len(sum.Samples) < 2 && out.NonTrivial {
			sum.Samples = append(sum.Samples, json.RawMessage(out.Sample))
		}
		if hashOut == "" && idx%50 == 7 && len(out.Viol) == 0 && out.Infra == "" {
			out2 := runPlan(t, orig)
			sum.Rechecks++
			if out2.EventHash != out.EventHash {
				sum.Mismatch++
				sum.Infra = append(sum.Infra, fmt.Sprintf("nondeterministic run seed=%d idx=%d", p.Seed, idx))
			}
		}
		for _, v := range out.Viol {
			if os.Getenv("VERIF_DEBUG") != "" && !seen["dbg"+v.Sig] {
				seen["dbg"+v.Sig] = true
				fmt.Printf("DEBUG viol idx=%d seed=%d sig=%s\n   %s\n   age=%dms count=%d clients=%v\n", idx, p.Seed, v.Sig, v.Detail, p.AgeMs, p.Count, p.Clients)
			}
			speaks := false
			for _, pr := range v.Props {
				if pr == "C20" {
					speaks = true
				}
			}
			if !speaks {
				sum.Observed[v.Oracle]++
				continue
			}
			if isKnown(known, v.Sig) {
				sum.Known[v.Sig]++
				continue
			}
			if seen[v.Sig] {
				continue
			}
			seen[v.Sig] = true
			rep := violationReport{Sig: v.Sig, Oracle: v.Oracle, Seed: p.Seed, Detail: v.Detail}
			if replayDir != "" {
				mp, st, mv := minimise(t, p, v)
				sum.Minim = append(sum.Minim, st)
				_ = os.MkdirAll(replayDir, 0755)
				c := mp.clone()
				c.Fixed = true
				o2 := runPlan(t, c)
				doc := replayDoc{Property: "C20", Oracle: mv.Oracle, Signature: mv.Sig, Seed: p.Seed, Engine: "cache", Plan: c, Violation: mv, EventHash: fmt.Sprintf("%016x", o2.EventHash), Minimised: st}
				b, _ := json.MarshalIndent(doc, "", " ")
				h := fnv.New32a()
				h.Write([]byte(mv.Sig))
				name := fmt.Sprintf("%s/C20-%d-%08x.json", replayDir, p.Seed, h.Sum32())
				_ = os.WriteFile(name, b, 0644)
				rep.Replay, rep.Detail = name, mv.Detail
			}
			sum.Violations = append(sum.Violations, rep)
		}
		if len(sum.Violations) >= 3 || bad > 200 {
			break
		}
	}
	for f := range fps {
		sum.Fps = append(sum.Fps, strconv.FormatUint(f, 16))
	}
	sort.Strings(sum.Fps)
	sum.WallS = time.Since(t0).Seconds()
	if hashOut != "" {
		_ = os.WriteFile(hashOut, []byte(strings.Join(hashLines, "\n")+"\n"), 0644)
	}
	if o := os.Getenv("VERIF_OUT"); o != "" {
		b, _ := json.Marshal(sum)
		if err := os.WriteFile(o, b, 0644); err != nil {
			t.Fatal(err)
		}
	}
}
