//go:build verif

package store

import (
	"time"
)

// This file exists only in the scratch copy built by /verif (build tag "verif").
// It exposes the unexported collection entry points to the harness.

// VerifGC runs one collection on a repository. The caller must not hold the repo (Done called).
func VerifGC(r Repo) error { return r.gc() }

// VerifGCPass runs one store-wide pass, exactly as the ticker goroutine would.
func VerifGCPass(s Store, cur, prev time.Time) error {
	switch x := s.(type) {
	case *dir:
		return x.gc(cur, prev)
	case *mem:
		return x.gc(cur, prev)
	}
	return nil
}

// VerifIsDir reports whether the store is the directory store.
func VerifIsDir(s Store) bool {
	_, ok := s.(*dir)
	return ok
}

// VerifUploads returns the number of registered upload sessions of a repository.
func VerifUploads(r Repo) int {
	switch x := r.(type) {
	case *dirRepo:
		l, _ := x.uploads.List()
		return len(l)
	case *memRepo:
		l, _ := x.uploads.List()
		return len(l)
	}
	return -1
}
