//go:build go1.25

package olareg

// Whole-state observation, quiescent-point oracles (model equality, upload residue, directory
// layout), collections and restarts.

import (
	"encoding/json"
	"fmt"
	"os"
	"path/filepath"
	"sort"
	"strings"
	"time"

	"github.com/olareg/olareg/internal/simrt"
)

// obs is the API-observable content state of one repository over the names the run has used.
type obs struct {
	items  map[string]string
	faults int // injected faults seen when the observation ended
}

func (w *World) observe(repo string) *obs {
	o := &obs{items: map[string]string{}}
	q := w.quiet
	w.quiet = true
	defer func() { w.quiet = q }()
	get := func(key, path string, hdr map[string]string) {
		h := map[string][]string{}
		for k, v := range hdr {
			h[k] = []string{v}
		}
		r := w.do(reqSpec{method: "GET", path: path, hdr: h, repos: []string{repo}})
		val := fmt.Sprintf("%d", r.Code)
		if r.Code == 200 {
			val += " " + r.H.Get("Content-Type") + " " + r.H.Get("Docker-Content-Digest") + " " + digestOf("sha256", r.Body)[7:19]
		}
		o.items[key] = val
	}
	acc := mtOCIIndex + ", " + mtOCIManifest + ", " + mtDockManifest + ", " + mtDockList
	for _, d := range sortedKeys(w.m.usedDigests) {
		if !validDigest(d) {
			continue
		}
		get("blob "+d, "/v2/"+repo+"/blobs/"+d, nil)
		get("man "+d, "/v2/"+repo+"/manifests/"+d, map[string]string{"Accept": acc})
		if w.k.referrerOn() {
			_, descs, ok := w.refPage(repo, d, "")
			if ok {
				var ds []string
				for _, x := range descs {
					ds = append(ds, x.Digest)
				}
				sort.Strings(ds)
				o.items["refs "+d] = strings.Join(ds, ",")
			} else {
				o.items["refs "+d] = "!"
			}
		}
	}
	for _, t := range sortedKeys(w.m.usedTags) {
		get("tag "+t, "/v2/"+repo+"/manifests/"+t, map[string]string{"Accept": acc})
	}
	_, tags, ok := w.tagPage(repo, "")
	if ok {
		o.items["taglist"] = strings.Join(tags, ",")
	} else {
		o.items["taglist"] = "!"
	}
	o.faults = len(w.x.sim.FS.Fired)
	return o
}

func (w *World) compareObs(repo string, pre *obs, props []string, oracle, sig string) {
	if pre == nil {
		return
	}
	f0 := len(w.x.sim.FS.Fired)
	post := w.observe(repo)
	if post.faults != f0 || w.tainted[repo] || w.tainted["*"] {
		return // an injected disk fault disturbed the observation (or the request): state equality is not claimed
	}
	var diffs []string
	for k, v := range pre.items {
		if post.items[k] != v {
			diffs = append(diffs, fmt.Sprintf("%s: %q -> %q", k, v, post.items[k]))
		}
	}
	for k, v := range post.items {
		if _, ok := pre.items[k]; !ok {
			diffs = append(diffs, fmt.Sprintf("%s: (none) -> %q", k, v))
		}
	}
	if len(diffs) > 0 {
		sort.Strings(diffs)
		kind, _, _ := strings.Cut(diffs[0], " ")
		w.x.viol(props, oracle, sig+" changed "+kind, fmt.Sprintf("observable state of %s changed across a refused request: %s", repo, strings.Join(diffs, "; ")))
	}
}

// checkState compares the server with the model over every name the run used.
// checkZombieIO: after a clean restart the closed server must not touch the directory any more.
func (w *World) checkZombieIO() {
	if w.root == "" || w.gen < 2 {
		return
	}
	log := w.x.sim.FS.Log
	for i := w.restartAt; i < len(log); i++ {
		e := log[i]
		if e.Gen > 0 && e.Gen < w.gen && strings.HasPrefix(e.Path, w.root) && e.Err != "detached" {
			w.x.viol([]string{"C10"}, "restart.zombie-io", e.Op+" by "+taskKind(e.Task), fmt.Sprintf("after Close and reopen, a task of the closed server (%s, generation %d) still issued %s %s", e.Task, e.Gen, e.Op, strings.ReplaceAll(e.Path, w.root, "")))
			w.restartAt = len(log)
			return
		}
	}
	w.restartAt = len(log)
}

func taskKind(name string) string {
	switch {
	case strings.HasPrefix(name, "timer"):
		return "a cache timer"
	case strings.Contains(name, "gcTicker"):
		return "the collection ticker"
	}
	return "a background goroutine"
}

func (w *World) checkState(final bool) {
	if w.closed {
		return
	}
	w.checkZombieIO()
	w.x.out.States = append(w.x.out.States, w.m.stateHash())
	w.x.mix(w.m.shapeHash())
	repos := append([]string(nil), w.x.p.Repos...)
	for _, n := range sortedKeys(w.m.repos) {
		found := false
		for _, r := range repos {
			if r == n {
				found = true
			}
		}
		if !found && reRepo.MatchString(n) {
			repos = append(repos, n)
		}
	}
	for ri, repo := range repos {
		if !reRepo.MatchString(repo) {
			continue
		}
		if w.tainted[repo] {
			// a disk fault hit this repository: un-acknowledged state is not modelled; content that is served is still
			// checked against its digest by the generic oracle
			q := w.quiet
			w.quiet = true
			for _, d := range sortedKeys(w.m.usedDigests) {
				if validDigest(d) {
					w.opGet(Op{K: "get", Mode: "blob", Repo: ri, S: d})
					w.opGet(Op{K: "get", Mode: "man", Repo: ri, S: d, Accept: "all"})
				}
			}
			w.quiet = q
			continue
		}
		for _, d := range sortedKeys(w.m.usedDigests) {
			if !validDigest(d) {
				continue
			}
			w.opGet(Op{K: "get", Mode: "blob", Repo: ri, S: d})
			w.opGet(Op{K: "get", Mode: "man", Repo: ri, S: d, Accept: "all", Head: d[8]&1 == 1})
			if w.x.stop {
				return
			}
		}
		for _, t := range sortedKeys(w.m.usedTags) {
			w.opGet(Op{K: "get", Mode: "tag", Repo: ri, Tag: t, Accept: "all"})
		}
		w.opTags(Op{K: "tags", Repo: ri})
		if w.k.referrerOn() {
			subs := map[string]bool{}
			for _, x := range w.m.repo(repo).mans {
				if x.view.subject != "" {
					subs[x.view.subject] = true
				}
			}
			for _, d := range sortedKeys(w.m.usedDigests) {
				if validDigest(d) && len(subs) < 12 {
					subs[d] = true
				}
			}
			for _, s := range sortedKeys(subs) {
				w.opRefs(Op{K: "refs", Repo: ri, S: s})
			}
		}
	}
}

// checkSessions resolves sessions whose fate the model cannot predict and applies the bound / residue oracles.
func (w *World) checkSessions() {
	if w.closed || !w.k.pushOn() {
		return
	}
	for _, s := range w.m.sess {
		if !s.open || s.tainted {
			continue
		}
		if mustAlive, _ := w.sessLive(s); !mustAlive {
			w.sessStatus(s, "")
		}
	}
	for r := range w.inFlightEvict {
		delete(w.inFlightEvict, r)
	}
	perRepo := map[string]int{}
	for _, s := range w.m.sess {
		if s.tainted {
			w.tainted[s.repo] = true
		}
		if s.open {
			perRepo[s.repo]++
		}
	}
	max := w.k.uploadMax()
	for repo, n := range perRepo {
		if max > 0 && n > max {
			w.x.viol([]string{"C08", "C20"}, "session.bound", fmt.Sprintf("limit %d", max), fmt.Sprintf("%d upload sessions are open in %s at a quiescent point, the configured bound is %d", n, repo, max))
		}
	}
	// no partial content ever becomes a blob
	for _, s := range w.m.sess {
		if s.endedHow == "completion" || len(s.data) == 0 {
			continue
		}
		for _, algo := range []string{"sha256", "sha512"} {
			d := digestOf(algo, s.data)
			if b, ok := w.m.repo(s.repo).blobs[d]; ok && b != nil {
				continue
			}
			q := w.quiet
			w.quiet = true
			r := w.do(reqSpec{method: "HEAD", path: "/v2/" + s.repo + "/blobs/" + d, repos: []string{s.repo}})
			w.quiet = q
			if r.Code == 200 {
				w.x.viol([]string{"C08"}, "session.partial-blob", "after "+s.endedHow, fmt.Sprintf("content of session %d (%d bytes, %s) is retrievable as blob %s although the upload never completed", s.idx, len(s.data), s.endedHow, d))
			}
		}
	}
	// residue: exactly one temp file per open session (directory store)
	if w.k.Store == "dir" && w.root != "" {
		for _, repo := range w.allRepoNames() {
			dir := filepath.Join(w.root, repo, "_uploads")
			ents, err := os.ReadDir(dir)
			n := 0
			if err == nil {
				n = len(ents)
			}
			if n != perRepo[repo] && !w.tainted[repo] && !(w.residueOK[repo] && n > perRepo[repo]) {
				var names []string
				for _, e := range ents {
					names = append(names, e.Name())
				}
				how := map[string]int{}
				for _, s := range w.m.sess {
					if s.repo == repo && !s.open {
						how[s.endedHow]++
					}
				}
				w.x.viol([]string{"C08"}, "session.residue", fmt.Sprintf("files %s sessions", cmpWord(n, perRepo[repo])), fmt.Sprintf("%s/_uploads holds %d files %v but %d sessions are open (ended sessions: %v)", repo, n, names, perRepo[repo], how))
			}
		}
	}
}

func (w *World) anyMaybeGone(mr *MRepo) bool {
	for _, x := range mr.mans {
		if x.maybeGone {
			return true
		}
	}
	return false
}

func shapeOfChange(d string) string {
	i := strings.Index(d, `: "`)
	if i < 0 {
		return ""
	}
	rest := d[i+3:]
	a, b, _ := strings.Cut(rest, `" -> "`)
	if len(a) >= 3 && len(b) >= 3 {
		return a[:3] + "->" + b[:3]
	}
	return ""
}

func cmpWord(a, b int) string {
	if a > b {
		return ">"
	}
	if a < b {
		return "<"
	}
	return "="
}

func (w *World) allRepoNames() []string {
	set := map[string]bool{}
	for _, r := range w.x.p.Repos {
		set[r] = true
	}
	for r := range w.m.repos {
		set[r] = true
	}
	var out []string
	for r := range set {
		if reRepo.MatchString(r) {
			out = append(out, r)
		}
	}
	sort.Strings(out)
	return out
}

// ---------------------------------------------------------------------------------------------
// directory layout oracle (C10, C06, C01 file part)

type layoutIndex struct {
	SchemaVersion int               `json:"schemaVersion"`
	MediaType     string            `json:"mediaType"`
	Manifests     []descJSON        `json:"manifests"`
	Annotations   map[string]string `json:"annotations"`
}

const (
	annRefName = "org.opencontainers.image.ref.name"
	annSubject = "org.olareg.referrer.subject"
	annConvert = "org.olareg.referrer.convert"
)

// checkLayout validates every repository directory below root as an OCI layout and compares it with the model.
// props: who speaks (C10 by default); gcJustRan: additionally demand no dangling entries (C06).
func (w *World) checkLayout(afterGC bool) {
	if w.root == "" || w.k.Store != "dir" {
		return
	}
	if _, seeded := w.x.p.Extra["seed_layout"]; seeded || w.tainted["*"] {
		return // pre-seeded (possibly corrupt or legacy) directories and faulted runs are not judged as layouts here
	}
	for _, repo := range w.allRepoNames() {
		if !w.tainted[repo] {
			w.checkRepoLayout(repo, afterGC)
		}
	}
}

func (w *World) checkRepoLayout(repo string, afterGC bool) {
	dir := filepath.Join(w.root, repo)
	fi, err := os.Stat(dir)
	if err != nil || !fi.IsDir() {
		// no directory: the model must not demand content
		mr := w.m.repo(repo)
		for t := range mr.tags {
			w.x.viol([]string{"C10"}, "layout.api-mismatch", "repository directory missing", fmt.Sprintf("%s has tag %s per the API history but no directory", repo, t))
			break
		}
		return
	}
	// does it hold content?
	blobFiles := map[string]int64{}
	var stray []string
	_ = filepath.Walk(filepath.Join(dir, "blobs"), func(p string, fi os.FileInfo, err error) error {
		if err != nil || fi.IsDir() {
			return nil
		}
		rel, _ := filepath.Rel(filepath.Join(dir, "blobs"), p)
		parts := strings.Split(rel, string(filepath.Separator))
		if len(parts) != 2 || !validDigest(parts[0]+":"+parts[1]) {
			stray = append(stray, rel)
			return nil
		}
		d := parts[0] + ":" + parts[1]
		blobFiles[d] = fi.Size()
		b, _ := os.ReadFile(p)
		if digestOf(parts[0], b) != d {
			w.x.viol([]string{"C01", "C09"}, "blobfile.name-mismatch", parts[0], fmt.Sprintf("%s/blobs/%s holds %d bytes hashing to %s", repo, rel, len(b), digestOf(parts[0], b)))
		}
		return nil
	})
	_, errIdx := os.Stat(filepath.Join(dir, "index.json"))
	nested := false
	if ents, err := os.ReadDir(dir); err == nil {
		for _, e := range ents {
			if e.IsDir() && e.Name() != "blobs" && e.Name() != "_uploads" {
				nested = true
			}
		}
	}
	holds := len(blobFiles) > 0 || errIdx == nil
	if !holds {
		_ = nested
		return
	}
	if len(stray) > 0 {
		w.x.viol([]string{"C10"}, "layout.invalid", "stray file under blobs/", fmt.Sprintf("%s/blobs contains %v", repo, stray))
	}
	lb, err := os.ReadFile(filepath.Join(dir, "oci-layout"))
	var lay struct {
		V string `json:"imageLayoutVersion"`
	}
	if err != nil || json.Unmarshal(lb, &lay) != nil || lay.V != "1.0.0" {
		w.x.viol([]string{"C10"}, "layout.invalid", "oci-layout missing or wrong", fmt.Sprintf("%s holds content (%d blobs, index.json present=%v) but oci-layout is %q (err %v)", repo, len(blobFiles), errIdx == nil, trunc(lb, 60), err))
	}
	ib, err := os.ReadFile(filepath.Join(dir, "index.json"))
	idx := layoutIndex{}
	if err != nil || json.Unmarshal(ib, &idx) != nil {
		w.x.viol([]string{"C10"}, "layout.invalid", "index.json missing or unparsable", fmt.Sprintf("%s holds %d blobs but index.json: err=%v content=%q", repo, len(blobFiles), err, trunc(ib, 80)))
		return
	}
	tags := map[string]string{}
	subj := map[string]int{}
	untagged := map[string]int{}
	for _, e := range idx.Manifests {
		if sz, ok := blobFiles[e.Digest]; !ok {
			mr := w.m.repo(repo)
			if mr.blobDeleted[e.Digest] {
				// the client removed the content of a manifest through the blob endpoint: the entry dangles until the next
				// collection. The image-layout specification allows referenced blobs to be missing from blobs/, so the
				// directory is still a valid layout, and the API state (manifest listed, content gone) is what the client asked for.
				w.x.out.probe("entry-dangling-after-blob-delete")
			} else {
				props := []string{"C10"}
				if afterGC {
					props = []string{"C10", "C06"}
				}
				w.x.viol(props, "layout.entry-without-blob", "index entry lacks blob", fmt.Sprintf("%s index.json lists %s (annotations %v) but blobs/ has no such file", repo, e.Digest, e.Annotations))
			}
		} else if sz != e.Size {
			w.x.viol([]string{"C10"}, "layout.invalid", "entry size differs from blob size", fmt.Sprintf("%s index.json records size %d for %s, file has %d bytes", repo, e.Size, e.Digest, sz))
		}
		if t := e.Annotations[annRefName]; t != "" {
			if _, dup := tags[t]; dup {
				w.x.viol([]string{"C10", "C18"}, "index.invariant", "duplicate tag", fmt.Sprintf("%s index.json has tag %s twice", repo, t))
			}
			tags[t] = e.Digest
		} else if s := e.Annotations[annSubject]; s != "" {
			subj[s]++
			if subj[s] > 1 {
				w.x.viol([]string{"C10", "C18"}, "index.invariant", "two referrers responses for one subject", fmt.Sprintf("%s index.json has %d responses for subject %s", repo, subj[s], s))
			}
		} else {
			untagged[e.Digest]++
			if untagged[e.Digest] > 1 {
				// (C18's statement, not C10's: a layout that lists an untagged digest twice is still valid and describes the same state)
				w.x.viol([]string{"C18"}, "index.invariant", "untagged digest listed twice", fmt.Sprintf("%s index.json lists untagged %s %d times", repo, e.Digest, untagged[e.Digest]))
			}
		}
	}
	// tags derived from the files equal the model's (the API state)
	mr := w.m.repo(repo)
	for t, d := range mr.tags {
		if tags[t] != d {
			w.x.viol([]string{"C10"}, "layout.api-mismatch", "tag in files differs from API", fmt.Sprintf("%s: tag %s is %s per the API history, index.json says %q", repo, t, d, tags[t]))
		}
	}
	for t, d := range tags {
		if mr.tags[t] != d {
			if _, ok := mr.tags[t]; !ok {
				w.x.viol([]string{"C10"}, "layout.api-mismatch", "extra tag in files", fmt.Sprintf("%s: index.json has tag %s -> %s unknown to the API history", repo, t, d))
			}
		}
	}
	for d, x := range mr.mans {
		if x.maybeGone || mr.blobDeleted[d] {
			continue
		}
		if _, ok := blobFiles[d]; !ok {
			note := ""
			if why := mr.causeOf(d); why != "" {
				note = " [" + why + "]"
			}
			w.x.viol([]string{"C10"}, "layout.api-mismatch", "manifest blob missing"+note, fmt.Sprintf("%s: manifest %s is present per the API history but has no blob file%s", repo, d, note))
			if note != "" {
				mr.resyncOrphans()
				w.x.resync()
			}
		}
	}
}

// ---------------------------------------------------------------------------------------------
// collections, time, restart

// markCollectable tells the model a collection may be acting now.
func (w *World) markCollectable() {
	w.m.collectionOpportunity(w.now())
}

func (w *World) naturalGC() bool { return w.k.freq() > 0 && !w.k.readOnly() }

// backgroundBusy reports whether any task other than the caller could currently be running.
func (w *World) backgroundBusy() bool {
	return !w.x.sim.OthersQuiet()
}

// opSleep lets simulated time pass; background jobs (ticker, cache timers) run.
func (w *World) opSleep(ms int64) {
	simrt.Sleep(time.Duration(ms) * time.Millisecond)
	if w.naturalGC() || w.k.grace() > 0 {
		w.markCollectable()
	}
}

// opGC forces a collection: Repo >= 0 one repository, -1 a store-wide pass.
func (w *World) opGC(op Op) {
	if w.closed || w.k.readOnly() {
		return
	}
	w.x.out.probe("forced-gc")
	open := 0
	for _, s := range w.m.sess {
		if s.open {
			open++
		}
	}
	if open > 0 {
		w.x.out.probe("gc-with-open-session")
	}
	w.markCollectable()
	fs := w.x.sim.FS
	faulty := op.S == "faulty" && w.root != "" && fs.Rate == 0 && fs.FaultStream != nil
	if faulty {
		// this pass meets failing opens, stats and directory listings (EIO): it may give up, it must not take what it could
		// not look at for garbage. Nothing else in the run is faulted, so every oracle stays on
		fs.Rate, fs.FaultKinds, fs.FaultUnder = op.A, []string{"read"}, w.root
	}
	fired := len(fs.Fired)
	var err error
	if op.Repo < 0 {
		err = w.forceGCPass(time.Time{})
	} else {
		err = w.forceGC(w.repoName(op.Repo))
	}
	_ = err
	if faulty {
		fs.Rate = 0
		if len(fs.Fired) > fired {
			w.x.out.probe("gc-under-read-faults")
		}
		w.faultsSeen = len(fs.Fired)
	}
	w.markCollectable()
}

// opRestart closes the server and opens a new one on the same storage.
func (w *World) opRestart() {
	if w.switched {
		return // a memory store over the directory: what it holds in memory does not survive, the history goes on without restarts
	}
	w.settle()
	if !w.k.readOnly() {
		w.markCollectable() // Close runs a collection on every open repository
	}
	var pre map[string]*obs
	if w.root != "" && !w.quiet {
		pre = map[string]*obs{}
		for _, r := range w.allRepoNames() {
			pre[r] = w.observe(r)
		}
	}
	if err := w.close(); err != nil {
		w.x.out.probe("close-returned-error")
	}
	for _, s := range w.m.sess {
		if s.open {
			s.open, s.endedHow = false, "restart"
		}
	}
	if w.root == "" {
		// pure memory store: everything is gone
		w.m = newModel(w.k)
	}
	if w.switchTo != "" && w.k.Store == "dir" {
		// the new server is a memory store layered over the directory the old one filled
		w.k.Store, w.name, w.switched = w.switchTo, w.switchTo, true
		w.x.out.probe("restart-as-memory-over-directory")
	}
	w.switchTo = ""
	w.open()
	w.restartAt = len(w.x.sim.FS.Log)
	w.x.out.probe("restart")
	if pre != nil {
		for _, r := range w.allRepoNames() {
			if w.tainted[r] {
				continue // nothing is claimed about this repository any more (unhealthy storage, or content removed behind a tag)
			}
			post := w.observe(r)
			var diffs []string
			mr := w.m.repo(r)
			for k, v := range pre[r].items {
				if post.items[k] != v {
					kind, d, _ := strings.Cut(k, " ")
					// content a collection may legitimately have removed while closing is not compared
					if b, ok := mr.blobs[d]; kind == "blob" && ok && b.maybeGone {
						continue
					}
					if x, ok := mr.mans[d]; kind == "man" && ok && x.maybeGone {
						continue
					}
					if kind == "refs" || kind == "taglist" {
						if w.anyMaybeGone(mr) {
							continue
						}
					}
					diffs = append(diffs, fmt.Sprintf("%s: %q -> %q", k, v, post.items[k]))
				}
			}
			if len(diffs) > 0 {
				sort.Strings(diffs)
				kind, _, _ := strings.Cut(diffs[0], " ")
				note := ""
				if _, dg, ok := strings.Cut(strings.SplitN(diffs[0], ": ", 2)[0], " "); ok {
					if why := mr.causeOf(dg); why != "" {
						note = " [" + why + "]"
					} else if _, present := mr.mans[dg]; !present && (mr.isChildOfPresent(dg) || mr.ghosts[dg]) {
						note = " [deleted manifest still listed as child by a present index]"
					} else if kind == "refs" {
						if mr.respLost[dg] {
							note = " [referrers response collected by policy while artifacts remain]"
						}
						for ad, a := range mr.mans {
							if a.view.subject == dg {
								if why := mr.causeOf(ad); why != "" {
									note = " [" + why + "]"
								}
							}
						}
					}
				}
				if note != "" {
					mr.resyncOrphans()
					defer w.x.resync()
				}
				w.x.viol([]string{"C10"}, "restart.answer-changed", kind+" "+shapeOfChange(diffs[0])+note, fmt.Sprintf("%s: answers changed across a clean restart: %s", r, strings.Join(diffs, "; ")))
			}
		}
	}
}
