//go:build go1.25

package olareg

// Blob uploads and upload sessions: client side, model transitions and oracles (C01, C08, C16).

import (
	"encoding/base64"
	"fmt"
	"net/http"
	"net/url"
	"strconv"
	"strings"
	"time"
)

func (w *World) repoName(i int) string {
	rs := w.x.p.Repos
	if len(rs) == 0 {
		return "r0"
	}
	if i < 0 {
		i = -i
	}
	return rs[i%len(rs)]
}

func (w *World) obj(i int) *Obj {
	os := w.x.p.Objs
	if i < 0 {
		i = -i
	}
	return os[i%len(os)]
}

func stateTok(off int64) string {
	return base64.RawURLEncoding.EncodeToString([]byte(fmt.Sprintf(`{"offset":%d}`, off)))
}

// sessLive classifies a session: must it be alive, must it be gone, or may it be either?
func (w *World) sessLive(s *MSess) (mustAlive, mustGone bool) {
	if !s.open {
		return false, true
	}
	if s.maybeGone {
		return false, false
	}
	g := w.k.grace()
	if g > 0 {
		idle := w.now().Sub(s.lastUse)
		switch {
		case idle <= g:
			return true, false
		case float64(idle) > 2.2*float64(g)+float64(time.Second):
			return false, true
		default:
			return false, false
		}
	}
	return true, false
}

func (w *World) openCount(repo string) int {
	n := 0
	for _, s := range w.m.sess {
		if s.open && s.repo == repo {
			n++
		}
	}
	return n
}

func (w *World) noteCreated(s *MSess) {
	w.m.sess = append(w.m.sess, s)
	max := w.k.uploadMax()
	if max > 0 && w.openCount(s.repo) > max {
		w.x.out.probe("session-over-bound")
		for _, o := range w.m.sess {
			if o.open && o.repo == s.repo {
				o.maybeGone = true
			}
		}
		w.inFlightEvict[s.repo] = true
	}
}

// refusedUnknown checks that a request on a session that must not exist is refused with 4xx.
func (w *World) sessRefused(s *MSess, r *Resp, what string) {
	if !r.is4xx() && !r.Panicked && !(r.is5xx()) {
		w.x.viol([]string{"C08"}, "session.zombie", what+" after "+s.endedHow, fmt.Sprintf("%s on session %d (%s, ended by %s) answered %d instead of a refusal", what, s.idx, s.repo, s.endedHow, r.Code))
	}
}

// handleLiveness applies the alive/gone classification to a response; returns true when the
// request was (legitimately) handled as "session unknown" and further checks must be skipped.
func (w *World) handleLiveness(s *MSess, r *Resp, what string) bool {
	mustAlive, mustGone := w.sessLive(s)
	unknown := r.is4xx() && hasCode(w.errCodes(r), "BLOB_UPLOAD_UNKNOWN")
	if mustGone {
		w.sessRefused(s, r, what)
		if s.open {
			s.open, s.endedHow = false, "expiry"
		}
		return true
	}
	if unknown {
		if mustAlive {
			w.x.viol([]string{"C08"}, "session.lost", what, fmt.Sprintf("%s on open session %d in %s (idle %s, grace %s) answered %d BLOB_UPLOAD_UNKNOWN", what, s.idx, s.repo, fmtDur(w.now().Sub(s.lastUse)), w.k.grace(), r.Code))
		}
		s.open, s.endedHow = false, "expiry/eviction"
		return true
	}
	if !mustAlive && r.is5xx() && !w.abortedReq {
		// evicted or expired while the request was in flight
		s.open, s.endedHow = false, "expiry/eviction in flight"
		s.maybeGone = false
		return true
	}
	return false
}

func (w *World) parseLocation(s *MSess, r *Resp) {
	loc := r.H.Get("Location")
	if loc == "" {
		return
	}
	s.loc = loc
}

func (s *MSess) urlParts() (path, state string) {
	u, err := url.Parse(s.loc)
	if err != nil {
		return s.loc, ""
	}
	return u.EscapedPath(), u.Query().Get("state")
}

// sessPost opens a session (or performs a monolithic upload / mount). Returns the session if one was opened.
func (w *World) sessPost(idx int, repo string, q url.Values, body []byte, obj *Obj) (*MSess, *Resp) {
	now := w.now()
	hdr := http.Header{}
	if body != nil {
		hdr.Set("Content-Type", "application/octet-stream")
	}
	repos := []string{repo}
	if f := q.Get("from"); f != "" {
		repos = append(repos, f)
	}
	r := w.do(reqSpec{method: "POST", path: "/v2/" + repo + "/blobs/uploads/", query: q.Encode(), hdr: hdr, body: body, repos: repos})
	if r.Panicked {
		return nil, r
	}
	mr := w.m.repo(repo)
	if !w.k.pushOn() || w.k.readOnly() {
		if !r.is4xx() {
			w.x.viol([]string{"C14", "C19"}, "switch.not-refused", "POST upload", fmt.Sprintf("POST upload with push=%v readonly=%v answered %d", w.k.pushOn(), w.k.readOnly(), r.Code))
		}
		return nil, r
	}
	dStr, mountStr, fromStr, algoStr := q.Get("digest"), q.Get("mount"), q.Get("from"), q.Get("digest-algorithm")
	if r.is5xx() {
		return nil, r
	}
	// mount
	if mountStr != "" && fromStr != "" && validDigest(mountStr) {
		tgt, tgtHas := mr.blobs[mountStr]
		srcHas, srcMaybe := false, false
		if reRepo.MatchString(fromStr) && w.m.hasRepo(fromStr) {
			if b, ok := w.m.repos[fromStr].blobs[mountStr]; ok {
				srcHas, srcMaybe = !b.maybeGone, b.maybeGone
			}
		}
		if r.Code == 201 {
			if !(tgtHas) && !srcHas && !srcMaybe && dStr == "" {
				w.x.viol([]string{"C16"}, "iso.mount-without-source", mountShape(fromStr), fmt.Sprintf("mount of %s from %q into %s answered 201 although neither repository holds the blob (per the API history)", mountStr, fromStr, repo))
				return nil, r
			}
			if dStr == "" || tgtHas || srcHas {
				if !tgtHas || tgt.maybeGone {
					var data []byte
					if srcHas || srcMaybe {
						data = w.m.repos[fromStr].blobs[mountStr].data
					} else if tgtHas {
						data = tgt.data
					}
					if tgtHas {
						tgt.maybeGone = false
						tgt.acked = now
						tgt.refresh(now)
					} else {
						mr.blobs[mountStr] = &MBlob{data: data, born: now, acked: now}
					}
				}
				if tgtHas {
					tgt.refresh(now)
					tgt.acked = now
				}
				w.m.usedDigests[mountStr] = true
				w.x.out.probe("mount-201")
				// the copy went through an upload session of its own: for a moment the repository had one more
				if max := w.k.uploadMax(); max > 0 && w.openCount(repo)+1 > max {
					for _, o := range w.m.sess {
						if o.open && o.repo == repo {
							o.maybeGone = true
						}
					}
				}
				return nil, r
			}
		} else if (tgtHas && !tgt.maybeGone) || (srcHas && dStr == "") {
			if r.Code != 201 {
				// the spec allows a registry to decline a mount and open a session instead (202)
				if r.Code != 202 {
					w.x.viol([]string{"C16"}, "iso.mount-refused", "status", fmt.Sprintf("mount of existing blob answered %d", r.Code))
				}
			}
		}
	}
	if algoStr != "" && algoStr != "sha256" && algoStr != "sha384" && algoStr != "sha512" {
		if !r.is4xx() {
			w.x.viol([]string{"C15"}, "req.bad-algorithm-accepted", "POST upload", fmt.Sprintf("digest-algorithm=%q answered %d", algoStr, r.Code))
		}
		return nil, r
	}
	if dStr != "" || mountStr != "" {
		d := dStr
		if d == "" {
			d = mountStr
		}
		if !validDigest(d) {
			if !r.is4xx() {
				w.x.viol([]string{"C15"}, "req.bad-digest-accepted", "POST upload", fmt.Sprintf("unparsable digest %q answered %d", d, r.Code))
			} else if !hasCode(w.errCodes(r), "DIGEST_INVALID") {
				w.x.viol([]string{"C15"}, "req.error-code", "POST upload unparsable digest: not DIGEST_INVALID", fmt.Sprintf("unparsable digest %q answered %d %v", d, r.Code, w.errCodes(r)))
			}
			return nil, r
		}
	}
	if dStr != "" {
		// monolithic
		w.m.usedDigests[dStr] = true
		b, has := mr.blobs[dStr]
		ok := digestOf(algoOf(dStr), body) == dStr
		switch {
		case r.Code == 201:
			if has && !b.maybeGone {
				b.refresh(now)
				b.acked = now
				return nil, r
			}
			if !ok && !(has && b.maybeGone) {
				w.x.viol([]string{"C01"}, "upload.bad-digest-accepted", "monolithic POST", fmt.Sprintf("monolithic POST of %d bytes declared %s (actual %s) answered 201", len(body), dStr, digestOf(algoOf(dStr), body)))
				return nil, r
			}
			if has {
				b.maybeGone, b.acked = false, now
				b.refresh(now)
			} else {
				mr.blobs[dStr] = &MBlob{data: append([]byte(nil), body...), born: now, acked: now}
			}
			w.x.out.probe("mono-201")
		case r.is4xx():
			if ok || (has && !b.maybeGone) {
				w.x.viol([]string{"C02"}, "upload.good-refused", "monolithic POST", fmt.Sprintf("monolithic POST with correct digest %s answered %d %v", dStr, r.Code, w.errCodes(r)))
			}
		case r.Code == 202:
			w.x.viol([]string{"C08"}, "session.protocol", "monolithic POST answered 202", fmt.Sprintf("monolithic POST answered 202"))
		}
		return nil, r
	}
	if r.Code != 202 {
		if r.Code == 201 {
			return nil, r
		}
		w.x.viol([]string{"C08"}, "session.protocol", "POST upload -> "+strconv.Itoa(r.Code), fmt.Sprintf("POST upload (%s) answered %d %v", q.Encode(), r.Code, w.errCodes(r)))
		return nil, r
	}
	loc := r.H.Get("Location")
	u, err := url.Parse(loc)
	if err != nil || loc == "" {
		w.x.viol([]string{"C08"}, "session.protocol", "202 without Location", fmt.Sprintf("POST upload answered 202 with Location %q", loc))
		return nil, r
	}
	el := strings.Split(strings.Trim(u.Path, "/"), "/")
	s := &MSess{idx: idx, repo: repo, id: el[len(el)-1], loc: loc, open: true, created: now, lastUse: now, algo: algoStr}
	if mountStr != "" && dStr == "" {
		s.expect = mountStr
	}
	w.sessions[idx] = s
	w.noteCreated(s)
	return s, r
}

func mountShape(from string) string {
	switch {
	case reRepo.MatchString(from):
		return "from is a repository name"
	case strings.Contains(from, ".."):
		return "from contains dot-segments"
	case strings.HasPrefix(from, "/"):
		return "from is an absolute path"
	}
	return "from is not a repository name"
}

// offHeader builds the Content-Range header for a variant.
func offHeader(variant string, received, n int) (string, bool) {
	switch variant {
	case "", "ok":
		end := received + n - 1
		if n == 0 {
			end = received
		}
		return fmt.Sprintf("%d-%d", received, end), true
	case "none":
		return "", true
	case "stale":
		if received == 0 {
			return "", true
		}
		return fmt.Sprintf("%d-%d", received-1, received+n), false
	case "future":
		return fmt.Sprintf("%d-%d", received+1+n, received+2*n+2), false
	case "bad":
		return "abc", false
	case "neg":
		return "-5", false
	}
	return "", true
}

func stateVariant(variant, cur string, received int) (string, bool) {
	switch variant {
	case "", "ok":
		return cur, true
	case "stale":
		if received == 0 {
			return cur, true
		}
		return stateTok(int64(received - 1)), false
	case "future":
		return stateTok(int64(received + 7)), false
	case "bad":
		return "!!notbase64!!", false
	case "badjson":
		return base64.RawURLEncoding.EncodeToString([]byte(`{"offset":`)), false
	case "none":
		return "", false
	case "forged":
		// a well-formed token with the right offset that the server never issued: accepted or refused, both fine
		return stateTok(int64(received)), true
	}
	return cur, true
}

type chunkOpts struct {
	off, state string
	repo       string // override (cross-repository use)
	pieces     []int
	sleepMs    int64
	abort      bool
	abortAt    int
}

// sessData sends PATCH (final=false) or PUT (final=true, declared digest) on a session.
func (w *World) sessData(s *MSess, body []byte, final bool, declared string, o chunkOpts) *Resp {
	path, state := s.urlParts()
	repo := s.repo
	foreign := false
	if o.repo != "" && o.repo != s.repo {
		foreign = true
		repo = o.repo
		path = "/v2/" + repo + "/blobs/uploads/" + s.id
	}
	received := len(s.data)
	cr, offOK := offHeader(o.off, received, len(body))
	st, stateOK := stateVariant(o.state, state, received)
	q := url.Values{}
	if st != "" || o.state != "none" {
		q.Set("state", st)
	}
	if final {
		q.Set("digest", declared)
	}
	hdr := http.Header{}
	if cr != "" {
		hdr.Set("Content-Range", cr)
	}
	hdr.Set("Content-Type", "application/octet-stream")
	method, what := "PATCH", "PATCH"
	if final {
		method, what = "PUT", "PUT"
	}
	if o.sleepMs > 0 && w.k.grace() > 0 {
		w.inFlightEvict[repo] = true
	}
	mustAlive0, _ := w.sessLive(s)
	sentAt := w.now()
	r := w.do(reqSpec{method: method, path: path, query: q.Encode(), hdr: hdr, body: body, pieces: o.pieces, sleepMs: o.sleepMs,
		abort: o.abort, abortAt: o.abortAt, repos: []string{repo}, noBody: body == nil})
	if r.lastBody.After(sentAt) {
		sentAt = r.lastBody // (the server stores a piece after it got it)
	}
	if r.Panicked {
		return r
	}
	if !w.k.pushOn() {
		if !r.is4xx() {
			w.x.viol([]string{"C14", "C19"}, "switch.not-refused", what+" upload", fmt.Sprintf("%s upload with push disabled answered %d", what, r.Code))
		}
		return r
	}
	if foreign {
		if !r.is4xx() && !w.faultOverlapped(r) { // (a request that an injected disk error hit may fail with a 5xx)
			w.x.viol([]string{"C08", "C16"}, "session.cross-repo", what, fmt.Sprintf("%s on session of %s through repository %s answered %d", what, s.repo, repo, r.Code))
		}
		return r
	}
	if o.sleepMs > 0 && !mustAlive0 {
		// cannot classify a slow request on a session that may already be gone
	}
	if !s.tainted && w.faultOverlapped(r) && !(final && r.Code == 201) && w.resyncSession(s, body) {
		// the server said how much of the interrupted request it kept: the session stays in the model
		return r
	}
	if s.tainted || w.faultOverlapped(r) {
		// a disk fault hit this session: its further behaviour is not modelled (it may fail or lose un-acknowledged data);
		// a 201 is still checked through the digest oracles when the content is read back
		s.tainted, s.maybeGone = true, true
		if final && r.Code == 201 && validDigest(declared) {
			full := append(append([]byte(nil), s.data...), body...)
			if digestOf(algoOf(declared), full) == declared {
				s.open, s.endedHow = false, "completion"
				w.storeBlob(w.m.repo(s.repo), declared, full, s.created, w.now())
			}
		}
		return r
	}
	if r.bodyGap > 0 && mustAlive0 && r.bodyGap <= w.k.grace() && !r.lastBody.IsZero() {
		// a session is in use whenever a piece of a body arrives (both stores look it up for every write): one that was
		// alive when the request was sent and never waited a grace period for the next piece is as good as just used
		if lu := r.lastBody.Add(-r.bodyGap); lu.After(s.lastUse) {
			s.lastUse = lu
		}
	}
	w.abortedReq = o.abort
	handled := w.handleLiveness(s, r, what)
	w.abortedReq = false
	if handled {
		return r
	}
	mr := w.m.repo(s.repo)
	if o.abort {
		// the client went away mid-body: any status; the session has received the delivered prefix or is gone
		k := o.abortAt
		if k > len(body) {
			k = len(body)
		}
		if k < 0 {
			k = 0
		}
		if offOK && stateOK {
			if final {
				// an aborted final request may have ended the session
				s.maybeGone = true
				s.data = append(s.data, body[:k]...)
			} else {
				s.data = append(s.data, body[:k]...)
			}
		}
		s.lastUse = w.now()
		// a client learns where the session stands by asking (this also checks that exactly the delivered prefix was kept)
		if !final && offOK && stateOK {
			w.sessStatus(s, "")
		}
		return r
	}
	if !offOK {
		if r.Code != 416 {
			w.x.viol([]string{"C08"}, "session.offset", what+" Content-Range "+o.off+" -> "+strconv.Itoa(r.Code), fmt.Sprintf("%s with Content-Range %q at %d received bytes answered %d (want 416)", what, cr, received, r.Code))
			if r.is2xx() {
				w.x.stop = true
			}
		}
		s.lastUse = w.now()
		return r
	}
	if !stateOK {
		if !r.is4xx() {
			w.x.viol([]string{"C08"}, "session.offset", what+" state "+o.state+" -> "+strconv.Itoa(r.Code), fmt.Sprintf("%s with state variant %s (%q) at %d received bytes answered %d (want 4xx)", what, o.state, st, received, r.Code))
			if r.is2xx() {
				w.x.stop = true
			}
		}
		s.lastUse = w.now()
		return r
	}
	now := w.now()
	if !final {
		if r.Code != 202 {
			w.x.viol([]string{"C08"}, "session.protocol", "valid PATCH -> "+strconv.Itoa(r.Code), fmt.Sprintf("in-order PATCH of %d bytes at offset %d answered %d %v", len(body), received, r.Code, w.errCodes(r)))
			s.maybeGone = true
			return r
		}
		s.data = append(s.data, body...)
		s.lastUse = now
		if len(body) > 0 {
			s.lastData = sentAt
		}
		w.parseLocation(s, r)
		want := fmt.Sprintf("0-%d", len(s.data)-1)
		if got := r.H.Get("Range"); got != want {
			w.x.viol([]string{"C08"}, "session.status", "PATCH Range header", fmt.Sprintf("PATCH answered Range %q, want %q", got, want))
		}
		return r
	}
	// final PUT
	if !validDigest(declared) {
		if !r.is4xx() {
			w.x.viol([]string{"C01", "C15"}, "upload.bad-digest-accepted", "PUT unparsable digest", fmt.Sprintf("PUT with digest %q answered %d", declared, r.Code))
		}
		// session may or may not survive an unparsable digest
		s.maybeGone = true
		s.lastUse = now
		return r
	}
	full := append(append([]byte(nil), s.data...), body...)
	if len(body) > 0 {
		s.lastData = sentAt
	}
	actual := digestOf(algoOf(declared), full)
	w.m.usedDigests[declared] = true
	existing, has := mr.blobs[declared]
	if actual != declared {
		if r.Code == 201 || r.is2xx() {
			w.x.viol([]string{"C01"}, "upload.bad-digest-accepted", "PUT", fmt.Sprintf("PUT declared %s for %d bytes hashing to %s: answered %d", declared, len(full), actual, r.Code))
			w.x.stop = true
		}
		s.open, s.endedHow = false, "failed verification"
		return r
	}
	if s.expect != "" && s.expect != declared {
		// completion with a digest other than the one announced at creation: 201 or a refusal are both legitimate;
		// a refusal is a failed verification and ends the session
		if r.Code == 201 {
			s.open, s.endedHow = false, "completion"
			w.storeBlob(mr, declared, full, s.bornOf(), now)
		} else {
			s.open, s.endedHow = false, "failed verification (announced digest differs)"
		}
		return r
	}
	if r.Code != 201 {
		if has && !existing.maybeGone && r.is4xx() {
			// blob already present: refusing is odd but not claimed
		}
		w.x.viol([]string{"C02", "C08"}, "upload.good-refused", "PUT -> "+strconv.Itoa(r.Code), fmt.Sprintf("PUT with correct digest %s (%d bytes, created algo %q) answered %d %v", declared, len(full), s.algo, r.Code, w.errCodes(r)))
		s.maybeGone = true
		return r
	}
	s.open, s.endedHow = false, "completion"
	w.storeBlob(mr, declared, full, s.bornOf(), now)
	w.x.out.probe("upload-201")
	if algoOf(declared) != "sha256" {
		w.x.out.probe("upload-201-" + algoOf(declared))
	}
	if s.algo != "" && s.algo != algoOf(declared) {
		w.x.out.probe("algo-switched")
		if received > 0 {
			w.x.out.probe("algo-switched-after-first-byte")
		}
	}
	return r
}

func (w *World) storeBlob(mr *MRepo, d string, data []byte, born, now time.Time) {
	if b, ok := mr.blobs[d]; ok {
		b.maybeGone = false
		b.acked = now
		// an upload that was acknowledged again counts as an upload: the grace period starts over
		b.refresh(born)
		return
	}
	mr.blobs[d] = &MBlob{data: data, born: born, acked: now}
	delete(mr.blobDeleted, d)
}

func (w *World) sessStatus(s *MSess, repoOverride string) *Resp {
	path, _ := s.urlParts()
	repo := s.repo
	foreign := false
	if repoOverride != "" && repoOverride != s.repo {
		foreign, repo = true, repoOverride
		path = "/v2/" + repo + "/blobs/uploads/" + s.id
	}
	r := w.do(reqSpec{method: "GET", path: path, repos: []string{repo}})
	if r.Panicked {
		return r
	}
	if !w.k.pushOn() {
		return r
	}
	if foreign {
		if !r.is4xx() && !w.faultOverlapped(r) { // (a request that an injected disk error hit may fail with a 5xx)
			w.x.viol([]string{"C08", "C16"}, "session.cross-repo", "GET", fmt.Sprintf("status of session of %s through repository %s answered %d", s.repo, repo, r.Code))
		}
		return r
	}
	if s.tainted || w.faultOverlapped(r) {
		s.tainted = true
		if r.is4xx() {
			s.open, s.endedHow = false, "disk fault"
		}
		return r
	}
	if w.handleLiveness(s, r, "GET") {
		return r
	}
	s.maybeGone = false
	s.lastUse = w.now()
	if r.Code != 204 {
		w.x.viol([]string{"C08"}, "session.protocol", "status -> "+strconv.Itoa(r.Code), fmt.Sprintf("status query on open session answered %d", r.Code))
		return r
	}
	rng := r.H.Get("Range")
	end := int64(-2)
	if strings.HasPrefix(rng, "0-") {
		if v, err := strconv.ParseInt(rng[2:], 10, 64); err == nil {
			end = v
		}
	}
	if end != int64(len(s.data))-1 {
		w.x.viol([]string{"C08"}, "session.status", "GET Range header", fmt.Sprintf("status reports Range %q but %d bytes were accepted", rng, len(s.data)))
	}
	w.parseLocation(s, r)
	return r
}

func (w *World) sessCancel(s *MSess, repoOverride string) *Resp {
	path, _ := s.urlParts()
	repo := s.repo
	foreign := false
	if repoOverride != "" && repoOverride != s.repo {
		foreign, repo = true, repoOverride
		path = "/v2/" + repo + "/blobs/uploads/" + s.id
	}
	r := w.do(reqSpec{method: "DELETE", path: path, repos: []string{repo}})
	if r.Panicked || !w.k.pushOn() {
		return r
	}
	if foreign {
		if !r.is4xx() && !w.faultOverlapped(r) { // (a request that an injected disk error hit may fail with a 5xx)
			w.x.viol([]string{"C08", "C16"}, "session.cross-repo", "DELETE", fmt.Sprintf("cancel of session of %s through repository %s answered %d", s.repo, repo, r.Code))
		}
		return r
	}
	if s.tainted || w.faultOverlapped(r) {
		s.tainted = true
		if r.is2xx() || r.is4xx() {
			s.open, s.endedHow = false, "disk fault"
		}
		return r
	}
	if w.handleLiveness(s, r, "DELETE") {
		return r
	}
	if !r.is2xx() {
		w.x.viol([]string{"C08"}, "session.protocol", "cancel -> "+strconv.Itoa(r.Code), fmt.Sprintf("cancel of open session answered %d", r.Code))
		s.maybeGone = true
		return r
	}
	s.open, s.endedHow, s.maybeGone = false, "cancellation", false
	return r
}

// declaredDigest builds the digest a client declares, per variant.
func (w *World) declaredDigest(variant, algo string, data []byte) string {
	if algo == "" {
		algo = "sha256"
	}
	switch variant {
	case "", "ok":
		return digestOf(algo, data)
	case "wrong":
		return digestOf(algo, append([]byte("x"), data...))
	case "prefix":
		if len(data) > 1 {
			return digestOf(algo, data[:len(data)/2])
		}
		return digestOf(algo, []byte("p"))
	case "other":
		return digestOf(algo, []byte("some other content"))
	case "otheralgo-hex":
		// the hex of one algorithm under the name of another (length mismatch -> unparsable)
		d := digestOf("sha256", data)
		return "sha512:" + d[7:]
	case "badfmt":
		return "sha256:zz"
	case "unsupported":
		return "md5:d41d8cd98f00b204e9800998ecf8427e"
	}
	return digestOf(algo, data)
}

// opBlobPush performs a whole upload with the protocol variant of op.
func (w *World) opBlobPush(op Op) {
	repo := w.repoName(op.Repo)
	o := w.obj(op.Obj)
	data := o.data
	algo2 := op.Algo2
	declared := w.declaredDigest(op.Decl, algo2, data)
	q := url.Values{}
	if op.Algo != "" {
		q.Set("digest-algorithm", op.Algo)
	}
	switch op.Mode {
	case "mount":
		from := op.FromS
		if from == "" {
			from = w.repoName(op.From)
		}
		q.Set("mount", declared)
		q.Set("from", from)
		s, _ := w.sessPost(op.Sess, repo, q, nil, o)
		if s != nil {
			// mount fell through to a session: finish it as a normal upload or cancel it
			if op.A == 1 {
				w.sessData(s, data, true, declared, chunkOpts{})
			} else {
				w.sessCancel(s, "")
			}
		}
		return
	case "mono":
		q.Set("digest", declared)
		w.sessPost(op.Sess, repo, q, data, o)
		w.checkNotRetrievable(repo, declared, data)
		return
	}
	s, _ := w.sessPost(op.Sess, repo, q, nil, o)
	if s == nil {
		return
	}
	pos := 0
	if op.Mode == "chunk" {
		for i, c := range op.Chunks {
			if pos+c > len(data) {
				c = len(data) - pos
			}
			last := i == len(op.Chunks)-1
			if last && op.A == 1 {
				break
			}
			co := chunkOpts{sleepMs: 0}
			if op.B > 0 {
				// the body arrives in pieces of B bytes
				for n := 0; n < c && len(co.pieces) < 16; n += op.B {
					co.pieces = append(co.pieces, op.B)
				}
			}
			if op.Ms > 0 && i == 0 {
				co.sleepMs = op.Ms
				if co.pieces == nil && c > 1 {
					co.pieces = []int{c / 2}
				}
			}
			if i%2 == 1 {
				co.off = "none"
			}
			w.sessData(s, data[pos:pos+c], false, "", co)
			if !s.open && !s.maybeGone {
				return
			}
			pos = len(s.data)
			if pos > len(data) {
				return
			}
		}
	}
	if w.x.stop {
		return
	}
	rest := data[pos:]
	var body []byte
	if len(rest) > 0 || op.Mode == "put" {
		body = rest
	}
	w.sessData(s, body, true, declared, chunkOpts{})
	w.checkNotRetrievable(repo, declared, data)
}

// checkNotRetrievable: a digest that the content does not hash to must not serve this content.
func (w *World) checkNotRetrievable(repo, declared string, data []byte) {
	if !validDigest(declared) || digestOf(algoOf(declared), data) == declared {
		return
	}
	if b, ok := w.m.repo(repo).blobs[declared]; ok && b != nil {
		return // legitimately pushed elsewhere in the history
	}
	r := w.do(reqSpec{method: "GET", path: "/v2/" + repo + "/blobs/" + declared, repos: []string{repo}})
	if r.Code == 200 {
		w.x.viol([]string{"C01"}, "upload.bad-digest-retrievable", "blob", fmt.Sprintf("after a refused upload declaring %s, GET of that digest answers 200 (%d bytes)", declared, len(r.Body)))
	}
}

// opSess performs one fine-grained session step (C08 profile).
func (w *World) opSess(op Op) {
	if op.Act == "post" {
		q := url.Values{}
		if op.Algo != "" {
			q.Set("digest-algorithm", op.Algo)
		}
		if op.S == "mount-nofrom" {
			q.Set("mount", w.obj(op.Obj).digest(op.Algo2))
		}
		if op.S == "mount-from" {
			// a mount whose source may or may not hold the blob: when it does not, the registry falls back to a session
			q.Set("mount", w.obj(op.Obj).digest(op.Algo2))
			q.Set("from", w.repoName(op.B))
		}
		w.sessPost(op.Sess, w.repoName(op.Repo), q, nil, w.obj(op.Obj))
		return
	}
	s := w.sessions[op.Sess]
	if s == nil {
		return
	}
	o := w.obj(op.Obj)
	over := ""
	if op.From > 0 {
		over = w.repoName(op.From - 1)
	}
	switch op.Act {
	case "patch":
		// the session's content is a prefix walk over the object's data
		pos := len(s.data)
		n := op.A
		if pos > len(o.data) {
			pos = len(o.data)
		}
		if pos+n > len(o.data) {
			n = len(o.data) - pos
		}
		co := chunkOpts{off: op.Off, state: op.State, repo: over, sleepMs: op.Ms}
		if op.B > 0 {
			co.pieces = []int{op.B}
		}
		if op.S == "abort" {
			co.abort, co.abortAt = true, n/2
		}
		w.sessData(s, o.data[pos:pos+n], false, "", co)
	case "put":
		pos := len(s.data)
		if pos > len(o.data) {
			pos = len(o.data)
		}
		rest := o.data[pos:]
		if op.S == "partial" && len(rest) > 1 {
			rest = rest[:len(rest)/2]
		}
		full := append(append([]byte(nil), s.data...), rest...)
		declared := w.declaredDigest(op.Decl, op.Algo2, full)
		if op.S == "partial" {
			// declares the digest of the complete object although only part was sent
			declared = w.declaredDigest("ok", op.Algo2, o.data)
			if string(full) == string(o.data) {
				declared = w.declaredDigest("wrong", op.Algo2, o.data)
			}
		}
		var body []byte
		if len(rest) > 0 {
			body = rest
		}
		w.sessData(s, body, true, declared, chunkOpts{off: op.Off, state: op.State, repo: over})
		w.checkNotRetrievable(s.repo, declared, full)
	case "get":
		w.sessStatus(s, over)
	case "delete":
		w.sessCancel(s, over)
	}
}

// bornOf: the earliest moment the blob a session becomes may carry as its time: the bytes were written at or after the
// moment the last request with accepted bytes was sent (both stores stamp the last write or the completion).
func (s *MSess) bornOf() time.Time {
	if s.lastData.After(s.created) {
		return s.lastData
	}
	return s.created
}
