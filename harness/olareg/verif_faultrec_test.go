//go:build go1.25

package olareg

// Narrow relaxation after an injected disk fault (Knobs.FaultRecover): instead of giving up on a repository for the rest
// of the run once a fault hit one of its requests, the harness stops injecting for a moment, looks at what the server
// serves, lets the interrupted operation be in effect or not (whichever the server shows), and goes on judging everything
// against the model. What the interrupted operation was not about must be exactly as before.

import (
	"fmt"
	"sort"
	"strconv"
	"strings"
)

// pauseFaults stops rate-based fault injection until the returned function is called.
func (w *World) pauseFaults() func() {
	fs := w.x.sim.FS
	rate := fs.Rate
	fs.Rate = 0
	return func() { fs.Rate = rate }
}

// resyncSession asks the server how many bytes of an upload session survived a request that a fault interrupted.
// It reports whether the model could be brought in line (false: the session stays outside the model).
func (w *World) resyncSession(s *MSess, body []byte) bool {
	if !w.k.FaultRecover || s.tainted || !s.open {
		return false
	}
	defer w.pauseFaults()()
	path, _ := s.urlParts()
	q := w.quiet
	w.quiet = true
	r := w.do(reqSpec{method: "GET", path: path, repos: []string{s.repo}})
	w.quiet = q
	if r.Panicked {
		return false
	}
	switch {
	case r.Code == 404:
		// the failed request ended the session
		s.open, s.endedHow, s.maybeGone = false, "disk fault", false
		w.x.out.probe("fault-session-ended")
		return true
	case r.Code == 204:
		rng := r.H.Get("Range")
		if !strings.HasPrefix(rng, "0-") {
			return false
		}
		end, err := strconv.ParseInt(rng[2:], 10, 64)
		if err != nil {
			return false
		}
		n := int(end + 1)
		if n < len(s.data) {
			w.x.viol([]string{"C08"}, "session.fault-lost-accepted", "status after a failed write", fmt.Sprintf("after a request on session %d failed with a disk error the status reports %d bytes, fewer than the %d bytes of chunks that had been acknowledged before", s.idx, n, len(s.data)))
			return false
		}
		if n > len(s.data)+len(body) {
			w.x.viol([]string{"C08"}, "session.status", "status after a failed write reports bytes never sent", fmt.Sprintf("after a request on session %d failed with a disk error the status reports %d bytes; %d had been accepted and the failed request carried %d", s.idx, n, len(s.data), len(body)))
			return false
		}
		s.data = append(s.data, body[:n-len(s.data)]...)
		s.maybeGone = false
		s.lastUse = w.now()
		if n > 0 {
			s.lastData = w.now()
		}
		w.parseLocation(s, r)
		w.x.out.probe("fault-session-resynced")
		return true
	}
	return false
}

// recoverable reports whether the harness knows what operation op was about (its touched set).
func recoverableOp(op Op) bool {
	switch op.K {
	case "blob", "man", "get", "tags", "refs", "check", "settle", "sess":
		return true
	}
	return false
}

// recoverFaults is called after an operation during which a fault was injected into requests of the repositories in
// w.pendingFault.
func (w *World) recoverFaults(op Op) {
	if len(w.pendingFault) == 0 {
		return
	}
	repos := sortedKeys(w.pendingFault)
	w.pendingFault = map[string]bool{}
	ok := recoverableOp(op) && !w.naturalGC() && !w.x.stop && !w.closed
	if !ok {
		for _, r := range repos {
			w.tainted[r] = true
		}
		return
	}
	defer w.pauseFaults()()
	w.settle()
	sup := w.x.suppress
	w.x.suppress = false
	defer func() { w.x.suppress = sup }()
	for _, repo := range repos {
		if w.tainted[repo] || !reRepo.MatchString(repo) {
			w.tainted[repo] = true
			continue
		}
		if w.recoverRepo(repo, op) {
			w.x.out.probe("fault-recovered")
		} else {
			w.tainted[repo] = true
			w.x.out.probe("fault-not-recovered")
		}
	}
}

func (w *World) recoverRepo(repo string, op Op) bool {
	mr := w.m.repo(repo)
	if op.K == "blob" || op.K == "man" || op.K == "sess" {
		w.residueOK[repo] = true
	}
	// sessions of this repository that a fault left in an unknown state are cancelled
	for _, s := range w.m.sess {
		if s.repo == repo && s.open && s.tainted {
			path, _ := s.urlParts()
			q := w.quiet
			w.quiet = true
			r := w.do(reqSpec{method: "DELETE", path: path, repos: []string{repo}})
			w.quiet = q
			if r.Panicked || r.is5xx() {
				return false
			}
			s.open, s.endedHow, s.tainted = false, "disk fault", false
		}
	}
	// a request that opens a session (also a mount that falls back to one, or a manifest push, which uses one internally)
	// may have evicted others before it failed
	if op.K == "blob" || op.K == "man" || op.K == "sess" {
		for _, s := range w.m.sess {
			if s.repo == repo && s.open {
				s.maybeGone = true
			}
		}
	}
	// what the operation was about
	touched := map[string]bool{}
	opRepo := ""
	if op.K == "blob" || op.K == "man" {
		opRepo = w.repoName(op.Repo)
	}
	var o *Obj
	if (op.K == "blob" || op.K == "man") && opRepo == repo {
		o = w.obj(op.Obj)
		for _, a := range []string{"sha256", "sha384", "sha512"} {
			touched[o.digest(a)] = true
			w.m.usedDigests[o.digest(a)] = true
		}
		if op.K == "man" {
			if op.Tag != "" {
				touched["tag:"+op.Tag] = true
			}
			if o.Subject >= 0 {
				for _, a := range []string{"sha256", "sha512"} {
					touched[w.obj(o.Subject).digest(a)] = true
				}
			}
		}
	}
	ob := w.observe(repo)
	// the interrupted push may be in effect
	if o != nil && op.K == "blob" && (op.Decl == "" || op.Decl == "ok") {
		for _, a := range []string{"sha256", "sha384", "sha512"} {
			d := o.digest(a)
			_, in := mr.blobs[d]
			if strings.HasPrefix(ob.items["blob "+d], "200") && !in {
				w.storeBlob(mr, d, o.data, w.now(), w.now())
				mr.blobs[d].maybeGone = true // (nothing acknowledged it)
			}
		}
	}
	if o != nil && op.K == "man" {
		_, ref, ct, qd, body := w.manPushParams(op)
		v := w.m.judgeManifestPut(repo, ref, ct, qd, body, op.Len != "unknown")
		if v.digest != "" {
			_, in := mr.mans[v.digest]
			served := strings.HasPrefix(ob.items["man "+v.digest], "200")
			moved := v.tag != "" && strings.Contains(ob.items["tag "+v.tag], v.digest) && mr.tags[v.tag] != v.digest
			if (served && !in) || moved {
				if !(v.accept || v.either) {
					return false
				}
				// nobody acknowledged the push: what is visible now (from memory) may be gone after the next reload of
				// index.json, together with the protection it gives to what it refers to. The model has neither a tag nor a
				// retention root that may or may not exist: the repository keeps the old behaviour (no claims)
				_ = body
				return false
			}
		}
	}
	diffs := explain(mr, ob, nil, w.k)
	if len(diffs) == 0 {
		return true
	}
	sort.Strings(diffs)
	var collateral []string
	for _, d := range diffs {
		hit := false
		for t := range touched {
			if tag, ok := strings.CutPrefix(t, "tag:"); ok {
				hit = hit || strings.HasPrefix(d, "tag "+tag+" ") || strings.HasPrefix(d, "taglist ")
			} else {
				hit = hit || strings.Contains(d, t)
			}
		}
		if !hit {
			collateral = append(collateral, d)
		}
	}
	if len(collateral) > 0 {
		w.x.viol([]string{"C02", w.x.p.Prop}, "fault.collateral", fmt.Sprintf("after %s: %s", opShapeOf(op), diffKinds(collateral, nil)),
			fmt.Sprintf("a disk error was injected into operation %d (%s) on %s; afterwards, with healthy storage, content that operation was not about is not what was acknowledged: %s", w.x.opIdx, op.String(), repo, strings.Join(collateral, "; ")))
	}
	return false
}

func opShapeOf(op Op) string {
	s := op.K
	if op.Mode != "" {
		s += "/" + op.Mode
	}
	return s
}
