//go:build go1.25

package olareg

// Plan vocabulary: configuration knobs, the object universe (blobs and manifests a run may use)
// and symbolic client operations.

import (
	"crypto/sha256"
	"crypto/sha512"
	"encoding/hex"
	"encoding/json"
	"fmt"
	"sort"
	"strings"
	"time"

	"github.com/olareg/olareg/config"
)

// Knobs are the per-run configuration values. Tri-state ints: -1 unset (documented default), 0 false, 1 true.
type Knobs struct {
	Store         string   `json:"store"` // "dir", "mem", "memdir" (memory over a directory)
	ReadOnly      int      `json:"ro"`
	Push          int      `json:"push"`
	Delete        int      `json:"delete"`
	BlobDelete    int      `json:"blobdelete"`
	Referrer      int      `json:"referrer"`
	ManifestLimit int64    `json:"manifest_limit,omitempty"`
	RefLimit      int64    `json:"ref_limit,omitempty"`
	PageCacheN    int      `json:"page_cache_n,omitempty"`
	PageCacheMs   int64    `json:"page_cache_ms,omitempty"`
	GCFreqMs      int64    `json:"gc_freq_ms"`  // 0 = default (15m), <0 disabled
	GCGraceMs     int64    `json:"gc_grace_ms"` // 0 = default (1h), <0 disabled
	UploadMax     int      `json:"upload_max,omitempty"`
	Untagged      int      `json:"gc_untagged"`
	EmptyRepo     int      `json:"gc_emptyrepo"`
	RefDangling   int      `json:"gc_refdangling"`
	RefWithSubj   int      `json:"gc_refwithsubj"`
	RateLimit     int      `json:"rate_limit,omitempty"`
	Warnings      []string `json:"warnings,omitempty"`
	Preseed       string   `json:"preseed,omitempty"` // name of a tree generator for pre-existing content
	GCOff         bool     `json:"gc_off,omitempty"` // negative frequency: no collection at all (only where the model does not count on one)
	FaultRate     int      `json:"fault_rate,omitempty"`
	FaultKinds    []string `json:"fault_kinds,omitempty"`
	Torn          bool     `json:"torn,omitempty"`
	FaultRecover  bool     `json:"fault_recover,omitempty"` // after an injected fault the model is re-synchronised with what the server shows instead of giving up on the repository
	Lives         int      `json:"lives,omitempty"` // crash engine: 2 = the history goes on after one of its crash points (crash, recovery, work, crash)
}

func defaultKnobs() Knobs {
	return Knobs{Store: "dir", ReadOnly: -1, Push: -1, Delete: 1, BlobDelete: 1, Referrer: -1,
		GCFreqMs: -1, GCGraceMs: 0, Untagged: -1, EmptyRepo: -1, RefDangling: -1, RefWithSubj: -1}
}

func tri(v int) *bool {
	if v < 0 {
		return nil
	}
	b := v > 0
	return &b
}

func triDef(v int, def bool) bool {
	if v < 0 {
		return def
	}
	return v > 0
}

// effective values after documented defaults (the model's view; written from the documentation, not from SetDefaults)
func (k Knobs) pushOn() bool       { return triDef(k.Push, true) }
func (k Knobs) deleteOn() bool     { return triDef(k.Delete, false) }
func (k Knobs) blobDeleteOn() bool { return k.deleteOn() && triDef(k.BlobDelete, false) }
func (k Knobs) referrerOn() bool   { return triDef(k.Referrer, true) }
func (k Knobs) readOnly() bool     { return triDef(k.ReadOnly, false) }
func (k Knobs) untagged() bool     { return triDef(k.Untagged, false) }
func (k Knobs) emptyRepo() bool    { return triDef(k.EmptyRepo, true) }
func (k Knobs) refDangling() bool  { return triDef(k.RefDangling, false) }
func (k Knobs) refWithSubj() bool  { return triDef(k.RefWithSubj, true) }
func (k Knobs) manifestLimit() int64 {
	if k.ManifestLimit <= 0 {
		return 8 * 1024 * 1024
	}
	return k.ManifestLimit
}
func (k Knobs) refLimit() int64 {
	if k.RefLimit == 0 {
		return 4 * 1024 * 1024
	}
	return k.RefLimit
}
func (k Knobs) grace() time.Duration { // <0: disabled
	if k.GCGraceMs == 0 {
		return time.Hour
	}
	return time.Duration(k.GCGraceMs) * time.Millisecond
}
func (k Knobs) freq() time.Duration { // <0: disabled
	if k.GCFreqMs == 0 {
		return 15 * time.Minute
	}
	return time.Duration(k.GCFreqMs) * time.Millisecond
}
func (k Knobs) uploadMax() int { // <0 unlimited
	if k.UploadMax == 0 {
		return 1000
	}
	return k.UploadMax
}

func (k Knobs) config(root string) config.Config {
	c := config.Config{}
	switch k.Store {
	case "dir":
		c.Storage.StoreType = config.StoreDir
		c.Storage.RootDir = root
	case "mem":
		c.Storage.StoreType = config.StoreMem
	case "memdir":
		c.Storage.StoreType = config.StoreMem
		c.Storage.RootDir = root
	}
	c.Storage.ReadOnly = tri(k.ReadOnly)
	c.API.PushEnabled = tri(k.Push)
	c.API.DeleteEnabled = tri(k.Delete)
	c.API.Blob.DeleteEnabled = tri(k.BlobDelete)
	c.API.Referrer.Enabled = tri(k.Referrer)
	c.API.Manifest.Limit = k.ManifestLimit
	c.API.Referrer.Limit = k.RefLimit
	c.API.Referrer.PageCacheLimit = k.PageCacheN
	c.API.Referrer.PageCacheExpire = time.Duration(k.PageCacheMs) * time.Millisecond
	c.API.RateLimit = k.RateLimit
	c.API.Warnings = k.Warnings
	c.Storage.GC.Frequency = time.Duration(k.GCFreqMs) * time.Millisecond
	if k.GCFreqMs < 0 {
		// "no timer-driven passes in this run": the collection stays enabled (a repository is collected when it leaves the
		// repository cache and when the store is closed, and the harness forces passes), the ticker just never fires.
		// A negative frequency would switch the collection off altogether (what that flag does is checked by C19).
		c.Storage.GC.Frequency = 1000000 * time.Hour
	}
	if k.GCOff {
		c.Storage.GC.Frequency = -1 // collection switched off altogether (sessions still expire)
	}
	c.Storage.GC.GracePeriod = time.Duration(k.GCGraceMs) * time.Millisecond
	c.Storage.GC.RepoUploadMax = k.UploadMax
	c.Storage.GC.Untagged = tri(k.Untagged)
	c.Storage.GC.EmptyRepo = tri(k.EmptyRepo)
	c.Storage.GC.ReferrersDangling = tri(k.RefDangling)
	c.Storage.GC.ReferrersWithSubj = tri(k.RefWithSubj)
	return c
}

// ---------------------------------------------------------------------------------------------
// object universe

const (
	mtOCIManifest  = "application/vnd.oci.image.manifest.v1+json"
	mtOCIIndex     = "application/vnd.oci.image.index.v1+json"
	mtDockManifest = "application/vnd.docker.distribution.manifest.v2+json"
	mtDockList     = "application/vnd.docker.distribution.manifest.list.v2+json"
	mtOCIConfig    = "application/vnd.oci.image.config.v1+json"
	mtOCILayer     = "application/vnd.oci.image.layer.v1.tar+gzip"
	mtEmpty        = "application/vnd.oci.empty.v1+json"
)

// Obj is one piece of content a run may push. Manifests refer to other objects by index.
type Obj struct {
	Kind     string            `json:"kind"` // "blob", "image", "index", "raw"
	Size     int               `json:"size,omitempty"`
	Fill     uint32            `json:"fill,omitempty"`
	Config   int               `json:"config,omitempty"`
	Layers   []int             `json:"layers,omitempty"`
	Children []int             `json:"children,omitempty"`
	Subject  int               `json:"subject"` // -1 none
	SubjAlgo string            `json:"subj_algo,omitempty"`
	SubjFake string            `json:"subj_fake,omitempty"` // subject digest that is no object (missing subject)
	MT       string            `json:"mt,omitempty"`        // mediaType field inside the body ("" = omitted)
	Shape    string            `json:"shape,omitempty"`     // "image" or "index": actual body shape (for raw JSON)
	AT       string            `json:"at,omitempty"`        // artifactType
	ConfigMT string            `json:"config_mt,omitempty"`
	Annot    map[string]string `json:"annot,omitempty"`
	RefAlgo  string            `json:"ref_algo,omitempty"` // algorithm with which this manifest refers to its parts
	Raw      string            `json:"raw,omitempty"`      // literal body for kind "raw"
	Pad      int               `json:"pad,omitempty"`      // trailing whitespace bytes
	DescMT   string            `json:"desc_mt,omitempty"`

	data []byte
	dig  map[string]string
}

type descJSON struct {
	MediaType    string            `json:"mediaType"`
	Digest       string            `json:"digest"`
	Size         int64             `json:"size"`
	Annotations  map[string]string `json:"annotations,omitempty"`
	ArtifactType string            `json:"artifactType,omitempty"`
	URLs         []string          `json:"urls,omitempty"`
}

func digestOf(algo string, b []byte) string {
	switch algo {
	case "sha512":
		s := sha512.Sum512(b)
		return "sha512:" + hex.EncodeToString(s[:])
	case "sha384":
		s := sha512.Sum384(b)
		return "sha384:" + hex.EncodeToString(s[:])
	default:
		s := sha256.Sum256(b)
		return "sha256:" + hex.EncodeToString(s[:])
	}
}

func algoOf(d string) string {
	if i := strings.IndexByte(d, ':'); i > 0 {
		return d[:i]
	}
	return ""
}

func (o *Obj) digest(algo string) string {
	if algo == "" {
		algo = "sha256"
	}
	if o.dig == nil {
		o.dig = map[string]string{}
	}
	if d, ok := o.dig[algo]; ok {
		return d
	}
	d := digestOf(algo, o.data)
	o.dig[algo] = d
	return d
}

func (o *Obj) isManifest() bool { return o.Kind == "image" || o.Kind == "index" }

// mediaType is the type a client would declare for this manifest.
func (o *Obj) mediaType() string {
	if o.MT != "" {
		return o.MT
	}
	if o.Kind == "index" {
		return mtOCIIndex
	}
	return mtOCIManifest
}

// descMT is the media type used when another manifest refers to this object.
func (o *Obj) descMT() string {
	if o.DescMT != "" {
		return o.DescMT
	}
	switch o.Kind {
	case "image", "index":
		return o.mediaType()
	}
	return mtOCILayer
}

// materialise computes the bytes of every object (objects refer to lower indices only).
func materialise(objs []*Obj) {
	for _, o := range objs {
		o.dig = nil
		switch o.Kind {
		case "blob":
			b := make([]byte, o.Size)
			s := uint64(o.Fill)*0x9e3779b97f4a7c15 + 12345
			for i := range b {
				if i%8 == 0 {
					s = splitmix(s)
				}
				b[i] = byte(s >> (8 * uint(i%8)))
			}
			o.data = b
		case "raw":
			o.data = []byte(o.Raw)
		case "image", "index":
			m := map[string]any{"schemaVersion": 2}
			if o.MT != "" {
				m["mediaType"] = o.MT
			}
			if o.AT != "" {
				m["artifactType"] = o.AT
			}
			ref := func(i int, mt string) descJSON {
				t := objs[i]
				if mt == "" {
					mt = t.descMT()
				}
				d := descJSON{MediaType: mt, Digest: t.digest(o.RefAlgo), Size: int64(len(t.data))}
				if t.Kind == "blob" && t.DescMT != "" {
					// a layer "not to be distributed": its own media type and a place to fetch it from
					d.MediaType, d.URLs = t.DescMT, []string{"https://example.com/layers/" + t.digest("sha256")[7:19]}
				}
				return d
			}
			if o.Kind == "image" {
				cmt := o.ConfigMT
				if cmt == "" {
					cmt = mtOCIConfig
				}
				m["config"] = ref(o.Config, cmt)
				ls := []descJSON{}
				for _, l := range o.Layers {
					ls = append(ls, ref(l, mtOCILayer))
				}
				m["layers"] = ls
			} else {
				cs := []descJSON{}
				for _, c := range o.Children {
					cs = append(cs, ref(c, ""))
				}
				m["manifests"] = cs
			}
			if o.Subject >= 0 && o.Subject < len(objs) {
				t := objs[o.Subject]
				m["subject"] = descJSON{MediaType: t.descMT(), Digest: t.digest(o.SubjAlgo), Size: int64(len(t.data))}
			} else if o.SubjFake != "" {
				m["subject"] = descJSON{MediaType: mtOCIManifest, Digest: o.SubjFake, Size: 123}
			}
			if len(o.Annot) > 0 {
				m["annotations"] = o.Annot
			}
			b, _ := json.Marshal(m)
			if o.Pad > 0 {
				b = append(b, []byte(strings.Repeat(" ", o.Pad))...)
			}
			o.data = b
		}
	}
}

// parsed view of a manifest body, computed by the model's own JSON parse (independent of olareg/types)
type manView struct {
	ok       bool   // a JSON object
	shape    string // "image", "index", "both", "" (neither): taken narrowly
	mt       string
	at       string
	configMT string
	refs     []string // what the manifest names under the media type it was accepted with
	imgRefs  []string // config + layers
	children []string // manifests
	subject  string
	annot    map[string]string
	hasCfg   bool
	fieldErr map[string]bool // fields whose JSON type is wrong
}

func parseManifest(b []byte) manView {
	v := manView{fieldErr: map[string]bool{}}
	var top map[string]json.RawMessage
	if err := json.Unmarshal(b, &top); err != nil || top == nil {
		return v
	}
	v.ok = true
	get := func(k string, dst any) bool {
		raw, ok := top[k]
		if !ok || string(raw) == "null" {
			return false
		}
		if err := json.Unmarshal(raw, dst); err != nil {
			v.fieldErr[k] = true
			return false
		}
		return true
	}
	var sv int
	get("schemaVersion", &sv)
	get("mediaType", &v.mt)
	get("artifactType", &v.at)
	var cfg descJSON
	hasCfg := get("config", &cfg)
	var layers, mans []descJSON
	get("layers", &layers)
	hasMans := get("manifests", &mans)
	var subj descJSON
	if get("subject", &subj) {
		v.subject = subj.Digest
	}
	get("annotations", &v.annot)
	isImage := (hasCfg && (cfg.Digest != "" || cfg.MediaType != "")) || len(layers) > 0
	isIndex := hasMans
	switch {
	case isImage && isIndex:
		v.shape = "both"
	case isIndex:
		v.shape = "index"
	case isImage:
		v.shape = "image"
	}
	v.hasCfg = hasCfg
	v.configMT = cfg.MediaType
	if hasCfg || len(layers) > 0 {
		v.imgRefs = append(v.imgRefs, cfg.Digest)
		for _, l := range layers {
			v.imgRefs = append(v.imgRefs, l.Digest)
		}
	}
	for _, c := range mans {
		v.children = append(v.children, c.Digest)
	}
	// default: refs by shape (used for content the model only knows as bytes)
	switch v.shape {
	case "index":
		v.refs = v.children
	case "image":
		v.refs = v.imgRefs
	case "both":
		v.refs = append(append([]string{}, v.imgRefs...), v.children...)
	}
	return v
}

// under fixes refs and children to what a manifest accepted with media type mt names.
func (v manView) under(mt string) manView {
	if isIndexMT(mt) {
		v.refs = v.children
	} else {
		v.refs = v.imgRefs
		if len(v.refs) == 0 {
			v.refs = []string{""}
		}
		v.children = nil
	}
	return v
}

// ---------------------------------------------------------------------------------------------
// operations

// Op is one symbolic client operation. Fields are interpreted per kind (see verif_exec_test.go).
type Op struct {
	K      string  `json:"k"`
	Repo   int     `json:"r,omitempty"`
	Obj    int     `json:"o,omitempty"`
	Tag    string  `json:"tag,omitempty"`
	Algo   string  `json:"algo,omitempty"`  // digest algorithm for by-digest addressing / creation
	Algo2  string  `json:"algo2,omitempty"` // algorithm at completion
	Mode   string  `json:"mode,omitempty"`
	Chunks []int   `json:"chunks,omitempty"`
	Decl   string  `json:"decl,omitempty"` // declared digest variant
	From   int     `json:"from,omitempty"`
	FromS  string  `json:"from_s,omitempty"`
	CT     string  `json:"ct,omitempty"`
	QD     string  `json:"qd,omitempty"`
	Len    string  `json:"len,omitempty"` // "known" | "unknown"
	Head   bool    `json:"head,omitempty"`
	Accept string  `json:"accept,omitempty"`
	Range  string  `json:"range,omitempty"`
	N      string  `json:"n,omitempty"`
	Last   string  `json:"last,omitempty"`
	Filter string  `json:"filter,omitempty"`
	Ms     int64   `json:"ms,omitempty"`
	Sess   int     `json:"sess,omitempty"`
	Act    string  `json:"act,omitempty"`
	Off    string  `json:"off,omitempty"`   // offset variant: "ok","stale","future","bad","none"
	State  string  `json:"state,omitempty"` // state variant
	A      int     `json:"a,omitempty"`
	B      int     `json:"b,omitempty"`
	S      string  `json:"s,omitempty"`
	Raw    *RawReq `json:"raw,omitempty"`
}

// RawReq is a literal request (C15 fuzzing).
type RawReq struct {
	Method string              `json:"method"`
	Path   string              `json:"path"`
	Query  string              `json:"query,omitempty"`
	Hdr    map[string][]string `json:"hdr,omitempty"`
	Body   []byte              `json:"body,omitempty"` // base64 in JSON: bodies are arbitrary bytes
	CL     int64               `json:"cl"`
	Addr   string              `json:"addr,omitempty"`
}

func (o Op) String() string {
	b, _ := json.Marshal(o)
	return string(b)
}

func sortedKeys[V any](m map[string]V) []string {
	ks := make([]string, 0, len(m))
	for k := range m {
		ks = append(ks, k)
	}
	sort.Strings(ks)
	return ks
}

func fmtDur(d time.Duration) string { return fmt.Sprintf("%.3fs", d.Seconds()) }
