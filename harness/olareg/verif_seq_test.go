//go:build go1.25

package olareg

// Sequential engine: one client task issues the plan's operations against the real server while
// background jobs (collection ticker, cache timers, eviction goroutines) are scheduled around it.

import (
	"encoding/json"
	"fmt"
	"os"
	"path/filepath"
	"strings"
	"time"
)

func init() {
	engines["seq"] = engineSeq
}

func (w *World) exec(op Op) {
	switch op.K {
	case "blob", "man", "get", "del", "tags", "refs", "sess":
		if w.tainted[w.repoName(op.Repo)] || (op.K == "sess" && w.sessions[op.Sess] != nil && w.tainted[w.sessions[op.Sess].repo]) {
			sup := w.x.suppress
			w.x.suppress = true
			defer func() { w.x.suppress = sup }()
		}
	}
	// a collection (ticker, or the expiry of an idle repository) may have run since the last operation or be running now
	gcPossible := !w.k.readOnly() && (w.naturalGC() || w.k.grace() > 0)
	busy := false
	if gcPossible {
		w.markCollectable()
		if w.naturalGC() {
			busy = w.backgroundBusy()
			if busy {
				w.x.out.probe("op-while-background-busy")
			}
		}
	}
	switch op.K {
	case "blob":
		w.opBlobPush(op)
	case "man":
		w.opManPush(op)
	case "get":
		w.opGet(op)
	case "del":
		w.opDelete(op)
	case "tags":
		w.opTags(op)
	case "refs":
		w.opRefs(op)
		if op.A > 0 && op.Mode != "stale-page" {
			// repeat immediately: cached path
			w.x.extra["refsRepeat"] = true
			w.opRefs(op)
			delete(w.x.extra, "refsRepeat")
		}
	case "sess":
		w.opSess(op)
	case "storeapi":
		w.opStoreAPI(op)
	case "gc":
		w.opGC(op)
	case "sleep":
		w.opSleep(op.Ms)
	case "restart":
		if op.S == "memdir" && w.k.Store == "dir" && !w.k.readOnly() {
			w.switchTo = "memdir"
		}
		w.opRestart()
	case "settle":
		w.settle()
		w.checkSessions()
	case "check":
		w.settle()
		w.checkSessions()
		w.checkState(false)
		w.checkLayout(false)
	case "raw":
		w.opRaw(op)
	case "quiet":
		w.quiet = true
		w.x.suppress = true
	case "retained":
		w.settle()
		w.checkRetained()
	case "gcwait":
		w.opGCWait(op)
	case "gcpass":
		w.opGCPass(op)
	case "badentry":
		// another tool wrote an entry with a malformed digest into index.json (nothing behind it, nothing the API could create)
		if w.root != "" && w.k.Store == "dir" && !w.switched {
			// (while the registry is down: a running store cannot know that the file changed under it)
			w.opRestart()
			defer w.opTags(Op{K: "tags", Repo: op.Repo})
			ip := filepath.Join(w.root, w.repoName(op.Repo), "index.json")
			if b, err := os.ReadFile(ip); err == nil {
				var doc map[string]any
				if json.Unmarshal(b, &doc) == nil {
					ms, _ := doc["manifests"].([]any)
					doc["manifests"] = append(ms, map[string]any{"mediaType": mtOCIManifest, "digest": "sha256:0123456789abcdef", "size": 10})
					if nb, err := json.Marshal(doc); err == nil && os.WriteFile(ip, nb, 0644) == nil {
						_ = os.Chtimes(ip, time.Now(), time.Now())
						w.x.out.probe("foreign-entry-with-malformed-digest")
					}
				}
			}
		}
	case "rmrepo":
		if w.root != "" {
			w.settle()
			_ = os.RemoveAll(filepath.Join(w.root, w.repoName(op.Repo)))
			w.tainted[w.repoName(op.Repo)] = true
		}
	}
	if gcPossible {
		w.markCollectable()
	}
	_ = busy
	if w.k.FaultRecover {
		w.recoverFaults(op)
	}
}

func engineSeq(x *X) {
	p := x.p
	materialise(p.Objs)
	root := ""
	if p.Knobs.Store != "mem" {
		root = filepath.Join(x.root, "data")
		if err := os.MkdirAll(root, 0755); err != nil {
			x.out.Infra = err.Error()
			return
		}
	}
	w := newWorld(x, p.Knobs, root, p.Knobs.Store)
	if p.Knobs.Preseed != "" {
		preseed(w, p.Knobs.Preseed)
	}
	fs := x.sim.FS
	fs.Rate, fs.FaultKinds, fs.FaultUnder = p.Knobs.FaultRate, p.Knobs.FaultKinds, x.root
	w.open()
	ops := p.Clients[0]
	for i, op := range ops {
		x.opIdx = i
		nv := len(x.out.Viol)
		w.exec(op)
		x.mixs(op.K + op.Mode + op.Act)
		x.noteViolations(nv)
		if x.stop || (len(x.out.Viol) > nv && !x.resynced) {
			break
		}
		x.resynced = false
	}
	clean := !x.stop && (len(x.out.Viol) == 0 || x.allResynced)
	if clean {
		x.opIdx = len(ops)
		w.settle()
		if !w.quiet {
			w.checkSessions()
			w.checkState(true)
			w.checkLayout(false)
		}
	}
	if clean && !x.stop {
		if !w.k.readOnly() {
			w.markCollectable() // Close collects every open repository
		}
		if err := w.close(); err != nil {
			x.out.probe("close-returned-error")
			_ = err
		}
		w.settle()
		// after Close the directory must still be a valid layout and hold no upload residue
		if !w.quiet {
			w.afterClose()
		}
		w.monitors()
	} else {
		// leave the run; the server is closed so that background tasks end
		func() {
			defer func() { _ = recover() }()
			_ = w.close()
		}()
	}
	x.finishSeq(w)
}

func (w *World) afterClose() {
	if w.root == "" || w.k.Store != "dir" {
		return
	}
	w.checkLayout(false)
	if w.k.readOnly() {
		return
	}
	for _, repo := range w.allRepoNames() {
		ents, err := os.ReadDir(filepath.Join(w.root, repo, "_uploads"))
		if err == nil && len(ents) > 0 {
			var names []string
			for _, e := range ents {
				names = append(names, e.Name())
			}
			w.x.viol([]string{"C08"}, "session.residue", "after Close", fmt.Sprintf("%s/_uploads holds %v after Close", repo, names))
		}
	}
}

// finishSeq decides non-triviality and writes a sample.
func (x *X) finishSeq(w *World) {
	if w.k.Store == "mem" && w.root == "" && x.sim.FS.N > 0 {
		// (the harness itself does not go through the seam: every logged operation was made by the code under test)
		e := x.sim.FS.Log[0]
		x.viol([]string{"C16", "C14"}, "iso.memory-store-touches-disk", e.Op, fmt.Sprintf("a memory store without a root directory made %d filesystem operations, the first: %s %s", x.sim.FS.N, e.Op, e.Path))
	}
	need, _ := x.p.Extra["nontrivial"].([]any)
	x.out.NonTrivial = len(need) == 0 && x.out.Requests > 3
	for _, n := range need {
		if s, ok := n.(string); ok && x.out.Probes[s] > 0 {
			x.out.NonTrivial = true
		}
	}
	var ops []string
	for i, op := range x.p.Clients[0] {
		if i >= 12 {
			ops = append(ops, fmt.Sprintf("… %d more", len(x.p.Clients[0])-i))
			break
		}
		ops = append(ops, op.String())
	}
	x.out.Sample = fmt.Sprintf(`{"seed":%d,"profile":%q,"store":%q,"strategy":%q,"ops":[%s],"requests":%d,"steps":%d,"sim_time":%q}`,
		x.p.Seed, x.p.Profile, x.p.Knobs.Store, x.p.Strat.Kind, strings.Join(quoteAll(ops), ","), x.out.Requests, x.sim.Steps, time.Since(x.start).String())
}

func quoteAll(s []string) []string {
	out := make([]string, len(s))
	for i := range s {
		out[i] = s[i]
		if !strings.HasPrefix(s[i], "{") {
			out[i] = fmt.Sprintf("%q", s[i])
		}
	}
	return out
}

func preseed(w *World, name string) {
	if f, ok := preseeders[name]; ok {
		f(w)
	}
}

var preseeders = map[string]func(w *World){}

// opRaw is filled in by the fuzz profile (verif_fuzz_test.go).
func (w *World) opRaw(op Op) {
	if op.Raw == nil {
		return
	}
	rawRequest(w, op)
}
