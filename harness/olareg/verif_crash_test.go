//go:build go1.25

package olareg

// C09: a crash at any filesystem step loses nothing acknowledged and tears nothing. Within each
// sampled history every mutating filesystem operation (and a torn prefix of every write) is a
// crash point: the tree is copied there and later opened by a fresh server and judged.

import (
	"encoding/json"
	"fmt"
	"os"
	"path/filepath"
	"sort"
	"strings"

	"github.com/olareg/olareg/internal/simrt"
)

func init() {
	engines["crash"] = engineCrash
	planners["C09"] = planC09
}

type crashSnap struct {
	dir   string
	k     int
	phase int
	op    string
	path  string
	opIdx int
	task  string
}

// crashLife is one life of the directory: a world executes a list of operations and every mutating filesystem
// operation (and a torn prefix of every write) is a crash point at which the tree is copied.
type crashLife struct {
	w      *World
	ops    []Op
	snaps  []crashSnap
	before []*Model
	after  []*Model
	done   int
}

func (x *X) runLife(w *World, root string, ops []Op, maxSnaps int, tag string) *crashLife {
	l := &crashLife{w: w, ops: ops, before: make([]*Model, len(ops)+1), after: make([]*Model, len(ops)+1)}
	fs := x.sim.FS
	hook := func(k int, op, path string, phase, n int) {
		if len(l.snaps) >= maxSnaps {
			return
		}
		dir := filepath.Join(x.root, fmt.Sprintf("%s-%d-%d", tag, k, phase))
		if err := copyTree(root, dir); err != nil {
			return
		}
		task := ""
		if t := simrt.Cur(); t != nil {
			task = t.Name
		}
		l.snaps = append(l.snaps, crashSnap{dir: dir, k: k, phase: phase, op: op, path: strings.ReplaceAll(path, root, ""), opIdx: x.opIdx, task: task})
	}
	fs.OnMut = hook
	for i, op := range ops {
		x.opIdx = i
		l.before[i] = w.m.clone()
		nv := len(x.out.Viol)
		w.exec(op)
		l.after[i] = w.m.clone()
		l.done = i + 1
		x.mixs(op.K + op.Mode)
		x.noteViolations(nv)
		if x.stop || (len(x.out.Viol) > nv && !x.resynced) {
			break
		}
		x.resynced = false
	}
	// Close is an operation too (it collects)
	x.opIdx = l.done
	l.before[l.done] = w.m.clone()
	if !w.k.readOnly() {
		w.markCollectable()
	}
	func() {
		defer func() { _ = recover() }()
		_ = w.close()
	}()
	w.settle()
	l.after[l.done] = w.m.clone()
	fs.OnMut = nil
	return l
}

func (l *crashLife) drop() {
	for _, s := range l.snaps {
		_ = os.RemoveAll(s.dir)
	}
}

func engineCrash(x *X) {
	p := x.p
	materialise(p.Objs)
	root := filepath.Join(x.root, "data")
	_ = os.MkdirAll(root, 0755)
	w := newWorld(x, p.Knobs, root, "dir")
	if p.Knobs.Preseed != "" {
		preseed(w, p.Knobs.Preseed)
	}
	fs := x.sim.FS
	fs.Torn = p.Knobs.Torn
	w.open()
	ops := p.Clients[0]
	l := x.runLife(w, root, ops, 600, "snap")
	done := l.done
	clean := !x.stop && (len(x.out.Viol) == 0 || x.allResynced)
	// the crash point after which the history goes on (second life): chosen before any judging, its tree kept pristine
	var seconds []crashSnap
	var life2 []string
	if clean && p.Knobs.Lives > 1 && len(l.snaps) > 0 {
		var cand []int
		for i, s := range l.snaps {
			if s.opIdx < done { // (not Close: nothing of the history would be left)
				cand = append(cand, i)
			}
		}
		for n := 0; n < 2 && len(cand) > 0; n++ {
			ci := int(splitmix(p.Seed^0x2d11fe+uint64(n)*0x9e37) % uint64(len(cand)))
			s := l.snaps[cand[ci]]
			cand = append(cand[:ci], cand[ci+1:]...)
			dir := filepath.Join(x.root, fmt.Sprintf("life2-%d", n))
			if copyTree(s.dir, dir) == nil {
				seconds = append(seconds, s)
				life2 = append(life2, dir)
			}
		}
	}
	if clean {
		for _, s := range l.snaps {
			if s.opIdx > done {
				continue
			}
			x.judgeSnapshot(w, s, l.before[s.opIdx], l.after[s.opIdx], ops)
			x.out.CrashPoints++
			if len(x.out.Viol) > 0 && !x.allResynced {
				break
			}
		}
	}
	l.drop()
	nsnaps := len(l.snaps)
	for i, second := range seconds {
		if len(x.out.Viol) == 0 || x.allResynced {
			nsnaps += x.secondLife(w, second, life2[i], l.before[second.opIdx], l.after[second.opIdx], ops, i)
		}
		_ = os.RemoveAll(life2[i])
	}
	x.out.NonTrivial = x.out.CrashPoints > 3
	x.mix(uint64(nsnaps))
	var ol []string
	for i, op := range ops {
		if i >= 10 {
			break
		}
		ol = append(ol, op.String())
	}
	x.out.Sample = fmt.Sprintf(`{"seed":%d,"profile":%q,"torn_writes":%v,"lives":%d,"ops":[%s],"crash_points":%d,"mutating_fs_ops":%d}`, p.Seed, p.Profile, p.Knobs.Torn, p.Knobs.Lives, strings.Join(ol, ","), x.out.CrashPoints, fs.NMut)
}

// secondLife: the process died at crash point s; a new server is started on that tree, the rest of the history is
// executed against it (judged operation by operation against the model the recovered tree corresponds to), and every
// mutating filesystem operation of that second life is a crash point again (crash, recovery, work, crash, recovery).
func (x *X) secondLife(orig *World, s crashSnap, root string, mB, mA *Model, ops []Op, nth int) int {
	rest := ops[s.opIdx+1:]
	if len(rest) == 0 {
		return 0
	}
	rw := newWorld(x, orig.k, root, "second-life")
	rw.m = mA.clone()
	for d := range mB.usedDigests {
		rw.m.usedDigests[d] = true
	}
	for t := range mB.usedTags {
		rw.m.usedTags[t] = true
	}
	for r := range orig.tainted {
		rw.tainted[r] = true
	}
	sup := x.suppress
	x.suppress = true
	rw.quiet = true
	rw.open()
	// which state did the crash leave, repository by repository: the one before the interrupted operation or the one after it
	m2 := mA.clone()
	for _, repo := range orig.allRepoNames() {
		if orig.tainted[repo] {
			continue
		}
		o := rw.observe(repo)
		dB := explain(mB.repo(repo), o, mA.repo(repo), rw.k)
		dA := explain(mA.repo(repo), o, nil, rw.k)
		switch {
		case len(dA) == 0 && len(dB) == 0:
			if repoShape(mB.repo(repo)) != repoShape(mA.repo(repo)) {
				// both explain what is served although they differ (content a collection may or may not have removed):
				// the history cannot be continued against one model
				x.out.probe("second-life-ambiguous")
				x.suppress = sup
				_ = rw.close()
				rw.settle()
				return 0
			}
		case len(dA) == 0:
		case len(dB) == 0:
			cb := mB.clone()
			br := cb.repo(repo)
			// content of the interrupted request that was left behind unreferenced is there, and collectable
			for d, b := range mA.repo(repo).blobs {
				if _, ok := br.blobs[d]; !ok && strings.HasPrefix(o.items["blob "+d], "200") {
					bb := *b
					bb.maybeGone = true
					br.blobs[d] = &bb
				}
			}
			m2.repos[repo] = br
		default:
			// neither: reported by the first-level judge (or a known family); no second life
			x.out.probe("second-life-unexplained")
			x.suppress = sup
			_ = rw.close()
			rw.settle()
			return 0
		}
	}
	// an artifact push or delete is two index saves (manifest entry, referrers response; known, recorded): a crash between
	// them is invisible as long as the listing of that subject is not demanded (absent subject), and would be attributed
	// to a later operation of the second life. The chosen model must explain the listings exactly, or there is no second life
	if rw.k.referrerOn() {
		for _, mm := range []*Model{mA, mB} {
			for _, mr := range mm.repos {
				for _, a := range mr.mans {
					if a.view.subject != "" {
						rw.m.usedDigests[a.view.subject] = true // (a subject that was never pushed is listed as well)
					}
				}
			}
		}
		for _, repo := range orig.allRepoNames() {
			if orig.tainted[repo] {
				continue
			}
			o := rw.observe(repo)
			mr := m2.repo(repo)
			want := map[string]map[string]bool{}
			for d, a := range mr.mans {
				if a.view.subject != "" {
					if want[a.view.subject] == nil {
						want[a.view.subject] = map[string]bool{}
					}
					want[a.view.subject][d] = true
				}
			}
			for key, val := range o.items {
				sj, ok := strings.CutPrefix(key, "refs ")
				if !ok {
					continue
				}
				got := map[string]bool{}
				if val != "" && val != "!" {
					for _, g := range strings.Split(val, ",") {
						got[g] = true
					}
				}
				same := len(got) == len(want[sj])
				for g := range got {
					same = same && want[sj][g]
				}
				if !same {
					x.out.probe("second-life-listing-between-two-saves")
					x.suppress = sup
					_ = rw.close()
					rw.settle()
					return 0
				}
			}
		}
	}
	for _, ss := range m2.sess {
		if ss.open {
			ss.open, ss.endedHow = false, "restart"
		}
	}
	rw.m = m2
	rw.quiet = false
	x.suppress = sup
	x.out.probe("second-life")
	if traceOn {
		fmt.Printf("SECOND LIFE after crash at fs op #%d phase %d (%s %s) during op %d\n", s.k, s.phase, s.op, s.path, s.opIdx)
		for _, repo := range orig.allRepoNames() {
			b, _ := os.ReadFile(filepath.Join(root, repo, "index.json"))
			fmt.Printf("  %s/index.json: %s\n", repo, b)
		}
	}
	nv := len(x.out.Viol)
	l := x.runLife(rw, root, rest, 200, fmt.Sprintf("snap2%c", 'a'+nth))
	if traceOn {
		for _, repo := range orig.allRepoNames() {
			b, _ := os.ReadFile(filepath.Join(root, repo, "index.json"))
			fmt.Printf("  end of second life %s/index.json: %s\n", repo, b)
		}
	}
	// violations of the second life name themselves
	for i := nv; i < len(x.out.Viol); i++ {
		v := &x.out.Viol[i]
		if !strings.Contains(v.Detail, "second life") {
			v.Detail = fmt.Sprintf("in the second life (after a crash before fs op #%d during operation %d, %s, and recovery): %s", s.k, s.opIdx, opShape(ops, s.opIdx), v.Detail)
		}
	}
	clean := !x.stop && (len(x.out.Viol) == 0 || x.allResynced)
	if clean {
		for _, s2 := range l.snaps {
			if s2.opIdx > l.done {
				continue
			}
			x.judgeSnapshot(rw, s2, l.before[s2.opIdx], l.after[s2.opIdx], rest)
			x.out.CrashPoints++
			x.out.probe("second-life-crash-point")
			if len(x.out.Viol) > 0 && !x.allResynced {
				break
			}
		}
	}
	l.drop()
	return len(l.snaps)
}

// repoShape is what of a model repository is observable through the API.
func repoShape(r *MRepo) string {
	var sb strings.Builder
	for _, d := range sortedKeys(r.blobs) {
		fmt.Fprintf(&sb, "b%s%v;", d, r.blobs[d].maybeGone)
	}
	for _, d := range sortedKeys(r.mans) {
		fmt.Fprintf(&sb, "m%s%v;", d, r.mans[d].maybeGone)
	}
	for _, t := range sortedKeys(r.tags) {
		fmt.Fprintf(&sb, "t%s=%s;", t, r.tags[t])
	}
	for _, d := range sortedKeys(r.blobDeleted) {
		fmt.Fprintf(&sb, "x%s;", d)
	}
	return sb.String()
}

func opShape(ops []Op, i int) string {
	if i < 0 || i >= len(ops) {
		return "Close"
	}
	op := ops[i]
	s := op.K
	if op.Mode != "" {
		s += "/" + op.Mode
	}
	return s
}

// judgeSnapshot opens the tree as it was at a crash point and applies the C09 oracles.
func (x *X) judgeSnapshot(orig *World, s crashSnap, mB, mA *Model, ops []Op) {
	where := fmt.Sprintf("crash before fs op #%d (%s %s, issued by %s) during operation %d (%s)", s.k, s.op, s.path, s.task, s.opIdx, opShape(ops, s.opIdx))
	if s.phase == 1 {
		where = fmt.Sprintf("crash after a torn prefix of fs op #%d (%s %s, issued by %s) during operation %d (%s)", s.k, s.op, s.path, s.task, s.opIdx, opShape(ops, s.opIdx))
	}
	sigWhere := fmt.Sprintf("%s of %s during %s", s.op, pathKind(s.path), opShape(ops, s.opIdx))
	if s.phase == 1 {
		sigWhere = "torn " + sigWhere
	}
	// files: blobs match their names, index.json parses
	for _, repo := range orig.allRepoNames() {
		dir := filepath.Join(s.dir, repo)
		_ = filepath.Walk(filepath.Join(dir, "blobs"), func(p string, fi os.FileInfo, err error) error {
			if err != nil || fi.IsDir() {
				return nil
			}
			rel, _ := filepath.Rel(filepath.Join(dir, "blobs"), p)
			parts := strings.Split(rel, string(filepath.Separator))
			if len(parts) != 2 || !validDigest(parts[0]+":"+parts[1]) {
				return nil
			}
			b, _ := os.ReadFile(p)
			if digestOf(parts[0], b) != parts[0]+":"+parts[1] {
				x.viol([]string{"C09"}, "crash.blob-torn", sigWhere, fmt.Sprintf("%s: %s/blobs/%s holds %d bytes that do not hash to its name", where, repo, rel, len(b)))
			}
			return nil
		})
		if ib, err := os.ReadFile(filepath.Join(dir, "index.json")); err == nil {
			var doc map[string]json.RawMessage
			if json.Unmarshal(ib, &doc) != nil {
				x.viol([]string{"C09"}, "crash.load", "index.json unparsable: "+sigWhere, fmt.Sprintf("%s: %s/index.json does not parse (%d bytes: %q)", where, repo, len(ib), trunc(ib, 80)))
			}
		}
	}
	if len(x.out.Viol) > 0 && !x.allResynced {
		return
	}
	// a fresh server on the recovered tree
	rw := newWorld(x, orig.k, s.dir, "recovered")
	rw.m = mA.clone()
	for d := range mB.usedDigests {
		rw.m.usedDigests[d] = true
	}
	rw.quiet = true
	sup := x.suppress
	x.suppress = true
	rw.open()
	obsv := map[string]*obs{}
	for _, repo := range orig.allRepoNames() {
		obsv[repo] = rw.observe(repo)
	}
	x.suppress = sup
	defer func() {
		defer func() { _ = recover() }()
		_ = rw.close()
		rw.settle()
	}()
	for _, repo := range sortedKeys(obsv) {
		if orig.tainted[repo] {
			continue // the history itself gave up on this repository (content removed behind a tag through the blob endpoint)
		}
		o := obsv[repo]
		for _, k := range sortedKeys(o.items) {
			if strings.HasPrefix(o.items[k], "5") {
				x.viol([]string{"C09"}, "crash.load", "5xx after restart: "+sigWhere, fmt.Sprintf("%s: after restart %s in %s answers %s", where, k, repo, o.items[k]))
				return
			}
		}
		// tags resolve to intact manifests
		for k, v := range o.items {
			if strings.HasPrefix(k, "tag ") && strings.HasPrefix(v, "200") {
				// value: "200 <ct> <digest> <sha256-of-body-prefix>"; the generic oracle already checked body vs digest for GETs
				continue
			}
		}
		dB := explain(mB.repo(repo), o, mA.repo(repo), rw.k)
		if len(dB) == 0 {
			continue
		}
		dA := explain(mA.repo(repo), o, nil, rw.k)
		if len(dA) == 0 {
			continue
		}
		// neither the state before nor the state after the interrupted operation explains what the recovered server serves
		if s.opIdx < len(ops) && mB.stateHash() == mA.stateHash() {
			// the interrupted operation changed nothing in the model (a read, a refused request, a collection):
			// then acknowledged state was lost or garbled
		}
		kind := "partial-op"
		props := []string{"C09"}
		oracle := "crash.partial-op"
		if lostAck(dB, dA) {
			oracle, kind = "crash.ack-lost", "ack-lost"
		}
		_ = kind
		sort.Strings(dB)
		sort.Strings(dA)
		sig := fmt.Sprintf("during %s: vs before [%s], vs after [%s]", opShape(ops, s.opIdx), diffKinds(dB, nil), diffKinds(dA, nil))
		_ = sigWhere
		x.viol(props, oracle, sig, fmt.Sprintf("%s: the recovered repository %s matches neither the state before the interrupted operation (differences: %s) nor the state after it (differences: %s)", where, repo, strings.Join(dB, "; "), strings.Join(dA, "; ")))
		if onlyRefs(dA) || onlyRefs(dB) {
			// the manifest entry and its referrers entry are two separate index.json saves (known, design-level):
			// go on judging the other crash points of this history
			x.resync()
			x.resynced = false
			continue
		}
		return
	}
	// life goes on after the crash: the recovered server must take a new push, and a server started after that must serve
	// it from a valid layout (a file the crash left half-written has to be repaired, not kept)
	// (at every torn write and every whole-file write or rename, and at a third of the other crash points)
	if s.phase == 0 && s.op != "writefile" && s.op != "rename" && s.k%3 != 0 {
		return
	}
	if !rw.k.pushOn() || rw.k.readOnly() || (len(x.out.Viol) > 0 && !x.allResynced) {
		return
	}
	if s.phase == 1 && strings.Contains(s.path, "oci-layout") {
		x.out.probe("epilogue-after-torn-oci-layout")
	}
	blob := []byte("pushed after the crash")
	bd := digestOf("sha256", blob)
	man := []byte(`{"schemaVersion":2,"mediaType":"` + mtOCIManifest + `","config":{"mediaType":"` + mtOCIConfig + `","digest":"` + bd + `","size":` + fmt.Sprint(len(blob)) + `},"layers":[]}`)
	md := digestOf("sha256", man)
	sup = x.suppress
	x.suppress = true // (the model oracles stay off for the recovered server)
	defer func() { x.suppress = sup }()
	report := func(oracle, sig, detail string) {
		x.suppress = sup
		x.viol([]string{"C09"}, oracle, sig, detail)
		x.suppress = true
	}
	var pushed []string
	for _, repo := range orig.allRepoNames() {
		if orig.tainted[repo] {
			continue
		}
		r1 := rw.do(reqSpec{method: "POST", path: "/v2/" + repo + "/blobs/uploads/", query: "digest=" + bd, body: blob, repos: []string{repo}})
		r2 := rw.do(reqSpec{method: "PUT", path: "/v2/" + repo + "/manifests/after-crash", hdr: map[string][]string{"Content-Type": {mtOCIManifest}}, body: man, repos: []string{repo}})
		if r1.Code != 201 || r2.Code != 201 {
			report("crash.after-recovery", "push refused: "+sigWhere, fmt.Sprintf("%s: the recovered server answers %d / %d to a new blob and manifest push into %s", where, r1.Code, r2.Code, repo))
			return
		}
		pushed = append(pushed, repo)
	}
	_ = rw.close()
	rw.settle()
	rw.open()
	for _, repo := range pushed {
		rb := rw.do(reqSpec{method: "GET", path: "/v2/" + repo + "/blobs/" + bd, repos: []string{repo}})
		rm := rw.do(reqSpec{method: "GET", path: "/v2/" + repo + "/manifests/after-crash", hdr: map[string][]string{"Accept": {mtOCIManifest}}, repos: []string{repo}})
		if rb.Code != 200 || rm.Code != 200 || rm.H.Get("Docker-Content-Digest") != md {
			report("crash.after-recovery", "push after recovery lost by the next restart: "+sigWhere, fmt.Sprintf("%s: a push acknowledged by the recovered server is gone after the next clean restart: blob %d, tag %d (%s) in %s", where, rb.Code, rm.Code, rm.H.Get("Docker-Content-Digest"), repo))
			return
		}
		lb, err := os.ReadFile(filepath.Join(s.dir, repo, "oci-layout"))
		var lay struct {
			V string `json:"imageLayoutVersion"`
		}
		if err != nil || json.Unmarshal(lb, &lay) != nil || lay.V != "1.0.0" {
			report("crash.after-recovery", "oci-layout not repaired: "+sigWhere, fmt.Sprintf("%s: after recovery, a push and a restart %s/oci-layout is %q (%v)", where, repo, trunc(lb, 60), err))
			return
		}
	}
	x.out.probe("crash-epilogue")
}

func onlyRefs(d []string) bool {
	if len(d) == 0 {
		return false
	}
	for _, e := range d {
		if !strings.HasPrefix(e, "refs ") {
			return false
		}
	}
	return true
}

func pathKind(p string) string {
	switch {
	case strings.Contains(p, "index.json"):
		return "index.json"
	case strings.Contains(p, "oci-layout"):
		return "oci-layout"
	case strings.Contains(p, "_uploads") && strings.Contains(p, "->"):
		return "upload->blob"
	case strings.Contains(p, "_uploads"):
		return "upload file"
	case strings.Contains(p, "/blobs/"):
		return "blob"
	}
	return "directory"
}

func lostAck(dB, dA []string) bool {
	for _, d := range dB {
		if strings.Contains(d, "must be served") {
			for _, e := range dA {
				if e == d {
					return true
				}
			}
		}
	}
	return false
}

func diffKinds(dB, dA []string) string {
	set := map[string]bool{}
	for _, d := range append(append([]string{}, dB...), dA...) {
		k, _, _ := strings.Cut(d, " ")
		set[k] = true
	}
	return strings.Join(sortedKeys(set), ",")
}

// explain lists why model repository m does not explain observation o (empty: it does). extra, if not nil, is the
// state after the interrupted operation: blobs that exist only there are tolerated as unreferenced leftovers.
func explain(m *MRepo, o *obs, extra *MRepo, k Knobs) []string {
	var diffs []string
	unsureAny := false
	for _, x := range m.mans {
		if x.maybeGone {
			unsureAny = true
		}
	}
	if len(m.familyRoots()) > 0 {
		unsureAny = true
	}
	for _, key := range sortedKeys(o.items) {
		val := o.items[key]
		kind, d, _ := strings.Cut(key, " ")
		served := strings.HasPrefix(val, "200")
		switch kind {
		case "blob":
			b, ok := m.blobs[d]
			switch {
			case ok && !b.maybeGone && m.causeOf(d) == "":
				if !served {
					diffs = append(diffs, fmt.Sprintf("blob %s must be served, answers %s", d, val))
				}
			case !ok:
				if served {
					if extra != nil {
						if _, inAfter := extra.blobs[d]; inAfter {
							continue // content of the interrupted request, left behind unreferenced
						}
					}
					diffs = append(diffs, fmt.Sprintf("blob %s must be absent, answers %s", d, val))
				}
			}
		case "man":
			x, ok := m.mans[d]
			switch {
			case ok && !x.maybeGone && !m.blobDeleted[d] && m.causeOf(d) == "":
				if !served {
					diffs = append(diffs, fmt.Sprintf("manifest %s must be served, answers %s", d, val))
				}
			case !ok && !m.isChildOfPresent(d) && !m.ghosts[d]:
				stale := false
				for _, set := range m.staleRef {
					stale = stale || set[d]
				}
				if stale {
					// known family [artifact deleted after its blob]: a referrers response still lists it, so it is served
					// by digest again as soon as its blob is back (the interrupted request is a re-push of it)
					continue
				}
				if served {
					diffs = append(diffs, fmt.Sprintf("manifest %s must be absent, answers %s", d, val))
				}
			}
		case "tag":
			td, ok := m.tags[d]
			if ok && !(served && strings.Contains(val, td)) {
				diffs = append(diffs, fmt.Sprintf("tag %s must resolve to %s, answers %s", d, td, val))
			}
			if !ok && served {
				diffs = append(diffs, fmt.Sprintf("tag %s must be absent, answers %s", d, val))
			}
		case "taglist":
			want := strings.Join(sortedKeys(m.tags), ",")
			if val != want {
				diffs = append(diffs, fmt.Sprintf("taglist must be %q, is %q", want, val))
			}
		case "refs":
			if unsureAny || !k.referrerOn() || k.RefLimit > 0 {
				continue // (with a response limit single entries that cannot fit are left out: judged by the referrers oracles)
			}
			must, may := m.referrers(d)
			if m.respLost[d] || (extra != nil && extra.respLost[d]) {
				// a collection (possibly the interrupted operation itself) may drop this response by policy although the
				// artifacts stay (known family, judged by the collection checks): nothing must be listed
				may = append(may, must...)
				must = nil
			}
			got := map[string]bool{}
			if val != "" && val != "!" {
				for _, g := range strings.Split(val, ",") {
					got[g] = true
				}
			}
			for _, a := range must {
				if !got[a] {
					diffs = append(diffs, fmt.Sprintf("refs of %s must list %s", d, a))
				}
			}
			allowed := map[string]bool{}
			for _, a := range append(must, may...) {
				allowed[a] = true
			}
			for g := range got {
				if !allowed[g] {
					diffs = append(diffs, fmt.Sprintf("refs of %s must not list %s", d, g))
				}
			}
		}
	}
	return diffs
}

func planC09(prop string, seed uint64, tier string, idx int) *Plan {
	if idx%10 == 9 {
		// crash points of a conversion (convert engine): the directory store's, whatever store the C17 plan would have used
		p := planC17(prop, seed, tier, idx)
		p.Knobs.Store = "dir"
		p.Profile = "crash points of a referrers conversion"
		return p
	}
	g := newGen(seed, tier)
	g.p.Engine = "crash"
	g.p.Profile = "crash points"
	g.repos(g.r.between(1, 2))
	k := &g.p.Knobs
	k.Store = "dir"
	k.GCFreqMs = -1
	k.GCGraceMs = int64(g.r.pick(-1, -1, 0))
	k.Untagged = g.r.pick(-1, 0, 1)
	k.EmptyRepo = g.r.pick(-1, 0, 1)
	k.Torn = idx%2 == 1
	if k.Torn {
		g.p.Profile = "crash points + torn writes"
	}
	if idx%3 == 2 {
		// crash, recovery, the rest of the history on the recovered tree, crash again, recovery
		k.Lives = 2
		g.p.Profile += " + second life"
	}
	images, indexes, arts := g.gcGraph()
	for _, o := range g.p.Objs {
		if o.Kind == "blob" && o.Size > 4096 {
			o.Size = g.r.between(1, 4096)
		}
	}
	extra := g.newBlob(g.r.between(1, 300))
	all := append(append(append([]int{}, images...), indexes...), arts...)
	n := g.r.between(3, 10)
	if tier == "thorough" {
		n = g.r.between(5, 15)
	}
	for i := 0; i < n; i++ {
		repo := g.r.intn(g.nrepos())
		switch g.r.intn(12) {
		case 0, 1, 2, 3:
			g.pushManifest(repo, all[g.r.intn(len(all))], g.r.str("", "v1", "v2", "latest"), false)
			g.ops[len(g.ops)-1].Algo, g.ops[len(g.ops)-1].QD = "", ""
		case 4:
			g.add(Op{K: "gc", Repo: g.r.pick(-1, repo)})
		case 5:
			g.add(Op{K: "restart"})
		default:
			g.gcHistoryOp(repo, images, indexes, arts, extra)
		}
	}
	return g.finish(prop)
}
