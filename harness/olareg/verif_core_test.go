//go:build go1.25

//go:debug asynctimerchan=0
package olareg

// Harness core: plans, running one plan inside a synctest bubble under the simrt scheduler,
// worker loop, result aggregation, minimisation and replay. This file is copied into a scratch
// copy of the repository by /verif/bin/check; it never exists in /repo.

import (
	"encoding/json"
	"fmt"
	"hash/fnv"
	"os"
	"path/filepath"
	"runtime/debug"
	"sort"
	"strconv"
	"strings"
	"testing"
	"testing/synctest"
	"time"

	"github.com/olareg/olareg/internal/simrt"
)

// ---------------------------------------------------------------------------------------------
// Plan

// Plan is the complete, explicit description of one simulated execution.
type Plan struct {
	Prop     string            `json:"prop"`
	Engine   string            `json:"engine"`
	Profile  string            `json:"profile"`
	Seed     uint64            `json:"seed"`
	Tier     string            `json:"tier"`
	Knobs    Knobs             `json:"knobs"`
	Objs     []*Obj            `json:"objs,omitempty"`
	Repos    []string          `json:"repos,omitempty"`
	Clients  [][]Op            `json:"clients,omitempty"`
	Strat    simrt.Strategy    `json:"strat"`
	Sched    []uint32          `json:"sched,omitempty"`
	MapOrder []uint32          `json:"maporder,omitempty"`
	Entropy  []uint32          `json:"entropy,omitempty"`
	FaultS   []uint32          `json:"faultstream,omitempty"`
	Fixed    bool              `json:"fixed,omitempty"` // streams are fixed: exhaustion yields 0
	Faults   []simrt.FaultSpec `json:"faults,omitempty"`
	Extra    map[string]any    `json:"extra,omitempty"`
}

func (p *Plan) clone() *Plan {
	b, _ := json.Marshal(p)
	q := &Plan{}
	_ = json.Unmarshal(b, q)
	return q
}

func (p *Plan) nOps() int {
	n := 0
	for _, c := range p.Clients {
		n += len(c)
	}
	return n
}

// Violation is one oracle failure.
type Violation struct {
	Props   []string `json:"props"`
	Oracle  string   `json:"oracle"`
	Sig     string   `json:"sig"`
	Detail  string   `json:"detail"`
	Step    int      `json:"step"`
	SimTime string   `json:"sim_time"`
	OpIndex int      `json:"op_index"`
}

func (v Violation) speaksFor(prop string) bool {
	for _, p := range v.Props {
		if p == prop {
			return true
		}
	}
	return false
}

// RunOut is what one run produces.
type RunOut struct {
	Viol        []Violation
	Fingerprint uint64
	NonTrivial  bool
	Steps       int
	Choices     int
	Switches    int
	SimSec      float64
	FSOps       int
	FSMut       int
	Fired       []string
	Probes      map[string]int
	States      []uint64
	Infra       string // infrastructure trouble (never a violation)
	EventHash   uint64
	LogTail     []string
	CrashPoints int
	Requests    int
	Inconcl     int
	Sample      string
}

func (o *RunOut) probe(name string) { o.Probes[name]++ }

// ---------------------------------------------------------------------------------------------
// deterministic PRNG for generation (not shared with the simulator's streams)

type rng struct{ s uint64 }

func splitmix(x uint64) uint64 {
	x += 0x9e3779b97f4a7c15
	z := x
	z = (z ^ (z >> 30)) * 0xbf58476d1ce4e5b9
	z = (z ^ (z >> 27)) * 0x94d049bb133111eb
	return z ^ (z >> 31)
}

func newRng(seed uint64) *rng { return &rng{s: splitmix(seed ^ 0xabcdef)} }
func (r *rng) u64() uint64 {
	r.s += 0x9e3779b97f4a7c15
	return splitmix(r.s)
}
func (r *rng) intn(n int) int {
	if n <= 1 {
		return 0
	}
	return int(r.u64() % uint64(n))
}
func (r *rng) chance(pct int) bool    { return r.intn(100) < pct }
func (r *rng) pick(n ...int) int      { return n[r.intn(len(n))] }
func (r *rng) str(s ...string) string { return s[r.intn(len(s))] }
func (r *rng) between(a, b int) int {
	if b <= a {
		return a
	}
	return a + r.intn(b-a+1)
}

func seedFor(base uint64, prop string, idx int) uint64 {
	h := fnv.New64a()
	h.Write([]byte(prop))
	return splitmix(splitmix(base)^h.Sum64()) ^ splitmix(uint64(idx)*0x9e3779b97f4a7c15+1)
}

// ---------------------------------------------------------------------------------------------
// running one plan

type engineFn func(x *X)

// X is the execution context of one run.
type X struct {
	t             *testing.T
	p             *Plan
	sim           *simrt.Sim
	out           *RunOut
	root          string // per-run scratch directory
	start         time.Time
	fp            uint64
	opIdx         int
	stop          bool // a violation that makes continuing meaningless was recorded
	suppress      bool // only the oracles that hold for every response apply
	pendingResync bool
	keepResynced  bool
	allResynced   bool // every violation so far was re-synchronised
	resynced      bool // the last violation was attributed to a known family and the model was re-synchronised: the run may go on
	extra         map[string]any
}

func (x *X) viol(props []string, oracle, sig, detail string) {
	if x.suppress && !(strings.HasPrefix(oracle, "req.") || strings.HasPrefix(oracle, "get.digest") || strings.HasPrefix(oracle, "blobfile.") || strings.HasPrefix(oracle, "ro.") || strings.HasPrefix(oracle, "iso.path") || strings.HasPrefix(oracle, "hang.")) {
		return // model-based oracles are off (storage of the addressed repository is unhealthy, or state was changed behind the model)
	}
	if x.p.Prop == "C14" && (strings.HasPrefix(oracle, "readback.") || strings.HasPrefix(oracle, "referrers.") || strings.HasPrefix(oracle, "taglist.") || oracle == "tag.resolve") {
		// "while still serving its content"
		props = append(append([]string{}, props...), "C14")
		oracle = "ro.served-wrong/" + oracle
	}
	if x.p.Prop == "C16" && x.p.Knobs.FaultRate == 0 && !strings.Contains(sig, "[") && (strings.HasPrefix(oracle, "readback.") || strings.HasPrefix(oracle, "gc.removed-") || strings.HasPrefix(oracle, "taglist.") || oracle == "tag.resolve" || strings.HasPrefix(oracle, "restart.")) {
		// the isolation plans change one repository at a time: content of a repository that no request explains away was
		// damaged by a request (or a collection) that was about another one (not what the model attributes to a known
		// family of its own repository, "[…]" in the signature: children of a deleted index, referrers of a deleted subject;
		// and not with injected disk faults, where a failed operation explains lost content and only the paths are judged)
		props = append(append([]string{}, props...), "C16")
		oracle = "iso.content-damaged/" + oracle
	}
	if len(detail) > 1500 {
		detail = detail[:1500] + "…"
	}
	v := Violation{Props: props, Oracle: oracle, Sig: oracle + ":" + sig, Detail: detail, Step: x.sim.Steps,
		SimTime: time.Since(x.start).String(), OpIndex: x.opIdx}
	if len(x.out.Viol) == 0 {
		x.allResynced = true
	} else if !x.keepResynced {
		// the previous violation was not re-synchronised
		x.allResynced = false
	}
	x.keepResynced = false
	x.out.Viol = append(x.out.Viol, v)
	x.pendingResync = false
}

// resync marks the violation just recorded as attributed to a known family after the model was adjusted.
func (x *X) resync() {
	x.resynced = true
	x.keepResynced = true
}

// endOp is called by the engine after each operation: a violation that was not re-synchronised ends clean continuation.
func (x *X) noteViolations(before int) {
	if len(x.out.Viol) > before && !x.resynced {
		x.allResynced = false
	}
}

func (x *X) mix(vals ...uint64) {
	for _, v := range vals {
		x.fp = (x.fp ^ v) * 0x100000001b3
	}
}
func (x *X) mixs(s string) {
	h := fnv.New64a()
	h.Write([]byte(s))
	x.mix(h.Sum64())
}

var engines = map[string]engineFn{}

var runCounter int

func scratchBase() string {
	if d := os.Getenv("VERIF_RUNDIR"); d != "" {
		return d
	}
	return os.TempDir()
}

// runPlan executes p once. It never panics; infrastructure trouble is reported in RunOut.Infra.
func runPlan(t *testing.T, p *Plan) (out *RunOut) {
	out = &RunOut{Probes: map[string]int{}}
	eng, ok := engines[p.Engine]
	if !ok {
		out.Infra = "unknown engine " + p.Engine
		return
	}
	runCounter++
	root, err := os.MkdirTemp(scratchBase(), fmt.Sprintf("run%d-", runCounter))
	if err != nil {
		out.Infra = "mkdtemp: " + err.Error()
		return
	}
	if os.Getenv("VERIF_KEEP") == "" {
		defer os.RemoveAll(root)
	}
	mk := func(vals []uint32, salt uint64) *simrt.Stream {
		st := simrt.NewStream(p.Seed ^ salt)
		st.Vals = append([]uint32(nil), vals...)
		st.Fixed = p.Fixed
		return st
	}
	sched, mo, ent, fs := mk(p.Sched, 0x1111), mk(p.MapOrder, 0x2222), mk(p.Entropy, 0x3333), mk(p.FaultS, 0x4444)
	var sim *simrt.Sim
	var res simrt.Result
	x := &X{p: p, out: out, root: root, extra: map[string]any{}}
	body := func(t *testing.T) {
		sim = simrt.New(sched, mo, ent)
		sim.FS.FaultStream = fs
		sim.FS.Faults = p.Faults
		sim.SetStrategy(p.Strat)
		x.t, x.sim, x.start = t, sim, time.Now()
		sim.GoNamed("main", "main", func() {
			defer func() {
				if r := recover(); r != nil {
					out.Infra = fmt.Sprintf("harness panic: %v\n%s", r, debug.Stack())
					sim.Abort("harness panic")
				}
			}()
			eng(x)
		})
		res = sim.Run()
		out.SimSec = time.Since(x.start).Seconds()
	}
	// (in its own goroutine: synctest.Test ends the calling goroutine with FailNow when the race detector reported
	// something during the bubble, and the worker must go on to collect the report)
	bubbleDone := make(chan struct{})
	go func() {
		defer close(bubbleDone)
		defer func() {
			if r := recover(); r != nil {
				msg := fmt.Sprint(r)
				// expected when a run was abandoned with parked goroutines
				if !res.Leaked && out.Infra == "" {
					out.Infra = "bubble panic: " + msg
				}
			}
		}()
		synctest.Test(t, body)
	}()
	<-bubbleDone
	if sim == nil {
		if out.Infra == "" {
			out.Infra = "simulation did not start"
		}
		return
	}
	if pv, st := sim.Panic(); pv != nil && out.Infra == "" {
		out.Infra = fmt.Sprintf("task panic: %v\n%s", pv, st)
	}
	x.finishRun(res)
	x.collectRaces()
	// record the streams as consumed so the plan is explicit afterwards
	p.Sched, p.MapOrder, p.Entropy, p.FaultS = sched.Vals, mo.Vals, ent.Vals, fs.Vals
	return
}

// finishRun turns scheduler-level outcomes into violations / infra notes and fills counters.
func (x *X) finishRun(res simrt.Result) {
	out, sim := x.out, x.sim
	out.Steps, out.Choices, out.Switches = sim.Steps, sim.Choices, sim.Switches
	out.FSOps, out.FSMut = sim.FS.N, sim.FS.NMut
	out.Fired = sim.FS.FiredKinds
	names, counts := sim.Probes()
	for i := range names {
		out.Probes[names[i]] += counts[i]
	}
	if sim.Contended > 0 {
		out.Probes["contended-lock"] += sim.Contended
	}
	switch {
	case res.Deadlock != nil:
		props := []string{"C12"}
		if x.p.Engine == "convert" {
			props = append(props, "C17") // "the conversion itself always terminates"
		}
		x.viol(props, "hang.cycle", cycleSig(res.CycleSig), strings.Join(res.Deadlock, "\n"))
	case res.OutOfSteps:
		if out.Infra == "" {
			out.Infra = "step budget exhausted"
		}
	case res.Stalled:
		props := []string{"C12"}
		if x.p.Engine == "convert" {
			props = append(props, "C17")
		}
		x.viol(props, "hang.stall", stallSig(sim.Unfinished()), "no task runnable and no timer pending:\n"+strings.Join(sim.Dump(), "\n"))
	case res.Aborted:
		if strings.HasPrefix(res.Reason, "liveness:") {
			// recorded by the watchdog itself
		} else if out.Infra == "" && len(out.Viol) == 0 {
			out.Infra = "aborted: " + res.Reason
		}
	}
	h := fnv.New64a()
	for _, e := range sim.FS.Log {
		fmt.Fprintf(h, "%d|%s|%s|%s|%s\n", e.N, e.Task, e.Op, strings.ReplaceAll(e.Path, x.root, ""), e.Err)
	}
	out.EventHash = h.Sum64() ^ sim.TraceHash
	if d := os.Getenv("VERIF_DUMPLOG"); d != "" {
		var sb strings.Builder
		for _, e := range sim.FS.Log {
			fmt.Fprintf(&sb, "%d|%s|%s|%s|%s|%s\n", e.N, e.Task, e.Tag, e.Op, strings.ReplaceAll(e.Path, x.root, ""), e.Err)
		}
		fmt.Fprintf(&sb, "steps=%d trace=%x fp=%x\n", sim.Steps, sim.TraceHash, x.fp)
		_ = os.WriteFile(fmt.Sprintf("%s.%d", d, runCounter), []byte(sb.String()), 0644)
	}
	n := len(sim.FS.Log)
	for i := max(0, n-25); i < n; i++ {
		e := sim.FS.Log[i]
		out.LogTail = append(out.LogTail, fmt.Sprintf("%d %s %s %s %s", e.N, e.Task, e.Op, strings.ReplaceAll(e.Path, x.root, ""), e.Err))
	}
	out.Fingerprint = x.fp
}

// cycleSig keeps the two innermost frames of every waiter of a wait-for cycle (sorted, distinct).
func cycleSig(waiters []string) string {
	seen := map[string]bool{}
	var out []string
	for _, w := range waiters {
		f := strings.Split(w, "<")
		if len(f) > 2 {
			f = f[:2]
		}
		k := strings.Join(f, "<")
		if !seen[k] {
			seen[k] = true
			out = append(out, k)
		}
	}
	sort.Strings(out)
	return strings.Join(out, " || ")
}

func stallSig(unf []string) string {
	var parts []string
	for _, u := range unf {
		f := strings.Split(u, "|")
		if len(f) == 3 && f[1] != "" {
			parts = append(parts, f[1]+"@"+f[2])
		}
	}
	sort.Strings(parts)
	return strings.Join(parts, " || ")
}

// ---------------------------------------------------------------------------------------------
// worker

type workerSummary struct {
	Prop       string            `json:"prop"`
	Worker     int               `json:"worker"`
	Runs       int               `json:"runs"`
	NonTrivial int               `json:"nontrivial"`
	Fps        []string          `json:"fps"` // distinct fingerprints of non-trivial runs (hex)
	States     []string          `json:"states"`
	Steps      int64             `json:"steps"`
	Choices    int64             `json:"choices"`
	Switches   int64             `json:"switches"`
	SimSec     float64           `json:"sim_sec"`
	FSOps      int64             `json:"fs_ops"`
	Requests   int64             `json:"requests"`
	Crash      int64             `json:"crash_points"`
	Fired      map[string]int    `json:"fired"`
	Probes     map[string]int    `json:"probes"`
	Strats     map[string]int    `json:"strats"`
	Profiles   map[string]int    `json:"profiles"`
	Inconcl    int               `json:"inconclusive"`
	Known      map[string]int    `json:"known"`      // signature -> count (listed in known findings)
	Violations []violationReport `json:"violations"` // unlisted
	Observed   map[string]int    `json:"observed"`   // oracle failures that speak for other properties
	Infra      []string          `json:"infra"`
	Samples    []json.RawMessage `json:"samples"`
	Rechecks   int               `json:"rechecks"`
	Mismatch   int               `json:"recheck_mismatch"`
	WallS      float64           `json:"wall_s"`
	Minim      []minimStat       `json:"minimised"`
	Seeds      []uint64          `json:"seeds_first"`
}

type violationReport struct {
	Sig    string `json:"sig"`
	Oracle string `json:"oracle"`
	Seed   uint64 `json:"seed"`
	Replay string `json:"replay"`
	Detail string `json:"detail"`
}

type minimStat struct {
	FromOps int `json:"from_ops"`
	ToOps   int `json:"to_ops"`
	FromSw  int `json:"from_sched"`
	ToSw    int `json:"to_sched"`
	Reruns  int `json:"reruns"`
}

type knownFinding struct {
	Property  string `json:"property"`
	Signature string `json:"signature"`
	Status    string `json:"status"` // "known" or "fixed"
	Note      string `json:"note"`
}

func loadKnown(path string) []knownFinding {
	var kf struct {
		Findings []knownFinding `json:"findings"`
	}
	b, err := os.ReadFile(path)
	if err != nil {
		return nil
	}
	_ = json.Unmarshal(b, &kf)
	return kf.Findings
}

func isKnown(kf []knownFinding, prop, sig string) bool {
	for _, k := range kf {
		if k.Status != "known" || k.Property != prop {
			continue
		}
		if wildMatch(k.Signature, sig) {
			return true
		}
	}
	return false
}

// wildMatch matches s against a pattern in which '*' stands for any (possibly empty) substring.
func wildMatch(pat, s string) bool {
	parts := strings.Split(pat, "*")
	if len(parts) == 1 {
		return pat == s
	}
	if !strings.HasPrefix(s, parts[0]) {
		return false
	}
	s = s[len(parts[0]):]
	for i := 1; i < len(parts)-1; i++ {
		j := strings.Index(s, parts[i])
		if j < 0 {
			return false
		}
		s = s[j+len(parts[i]):]
	}
	return strings.HasSuffix(s, parts[len(parts)-1])
}

func envInt(name string, def int) int {
	if v := os.Getenv(name); v != "" {
		if n, err := strconv.Atoi(v); err == nil {
			return n
		}
	}
	return def
}

// planFor builds the plan for run idx of a property.
var planners = map[string]func(prop string, seed uint64, tier string, idx int) *Plan{}

func makePlan(prop string, base uint64, tier string, idx int) *Plan {
	seed := seedFor(base, prop, idx)
	pl, ok := planners[prop]
	if !ok {
		return nil
	}
	p := pl(prop, seed, tier, idx)
	p.Prop, p.Seed, p.Tier = prop, seed, tier
	return p
}

// TestVerif is the worker entry point. Environment:
//
//	VERIF_PROP, VERIF_TIER, VERIF_SEED (base), VERIF_WORKER, VERIF_NWORKERS, VERIF_DEADLINE (unix s),
//	VERIF_MAXRUNS, VERIF_OUT (summary file), VERIF_REPLAYDIR, VERIF_KNOWN (known findings file),
//	VERIF_REPLAY (replay one file instead), VERIF_HASHES (file: write "idx hash" lines, determinism self-test)
func TestVerif(t *testing.T) {
	theT = t
	prop := os.Getenv("VERIF_PROP")
	if prop == "" && os.Getenv("VERIF_REPLAY") == "" {
		t.Skip("VERIF_PROP not set")
	}
	if rp := os.Getenv("VERIF_REPLAY"); rp != "" {
		replayFile(t, rp)
		return
	}
	tier := os.Getenv("VERIF_TIER")
	if tier == "" {
		tier = "quick"
	}
	base := uint64(envInt("VERIF_SEED", 1))
	worker, nworkers := envInt("VERIF_WORKER", 0), envInt("VERIF_NWORKERS", 1)
	deadline := time.Unix(int64(envInt("VERIF_DEADLINE", int(time.Now().Unix())+30)), 0)
	maxRuns := envInt("VERIF_MAXRUNS", 1<<30)
	known := loadKnown(os.Getenv("VERIF_KNOWN"))
	replayDir := os.Getenv("VERIF_REPLAYDIR")
	hashOut := os.Getenv("VERIF_HASHES")
	var hashLines []string

	sum := &workerSummary{Prop: prop, Worker: worker, Fired: map[string]int{}, Probes: map[string]int{}, Strats: map[string]int{},
		Profiles: map[string]int{}, Known: map[string]int{}, Observed: map[string]int{}}
	fps, states := map[uint64]bool{}, map[uint64]bool{}
	seenSig := map[string]bool{}
	t0 := time.Now()
	leaks := 0
	for i := 0; i < maxRuns; i++ {
		idx := worker + i*nworkers
		if idx >= maxRuns*nworkers {
			break
		}
		if time.Now().After(deadline) {
			break
		}
		p := makePlan(prop, base, tier, idx)
		if p == nil {
			t.Fatalf("no planner for %s", prop)
		}
		var orig *Plan
		if hashOut == "" {
			orig = p.clone()
		}
		if d := os.Getenv("VERIF_DUMPPLAN"); d != "" {
			pb, _ := json.MarshalIndent(replayDoc{Property: prop, Plan: p, Seed: p.Seed, Tier: tier, Engine: p.Engine, Violation: Violation{}}, "", " ")
			_ = os.WriteFile(fmt.Sprintf("%s.%d.json", d, idx), pb, 0644)
		}
		out := runPlan(t, p)
		sum.Runs++
		if len(sum.Seeds) < 5 {
			sum.Seeds = append(sum.Seeds, p.Seed)
		}
		if hashOut != "" {
			hashLines = append(hashLines, fmt.Sprintf("%d %016x %016x %d %d", idx, out.EventHash, out.Fingerprint, out.Steps, len(out.Viol)))
		}
		if out.Infra != "" {
			if len(sum.Infra) < 5 {
				sum.Infra = append(sum.Infra, fmt.Sprintf("seed=%d idx=%d: %s", p.Seed, idx, out.Infra))
			}
			leaks++
		}
		sum.Steps += int64(out.Steps)
		sum.Choices += int64(out.Choices)
		sum.Switches += int64(out.Switches)
		sum.SimSec += out.SimSec
		sum.FSOps += int64(out.FSOps)
		sum.Requests += int64(out.Requests)
		sum.Crash += int64(out.CrashPoints)
		sum.Inconcl += out.Inconcl
		sum.Strats[p.Strat.Kind]++
		sum.Profiles[p.Profile]++
		for _, f := range out.Fired {
			sum.Fired[f]++
		}
		for k, v := range out.Probes {
			sum.Probes[k] += v
		}
		if out.NonTrivial {
			sum.NonTrivial++
			fps[out.Fingerprint] = true
		}
		for _, s := range out.States {
			states[s] = true
		}
		if len(sum.Samples) < 2 && out.Sample != "" && out.NonTrivial {
			sum.Samples = append(sum.Samples, json.RawMessage(out.Sample))
		}
		// determinism re-check on ~2% of runs
		if hashOut == "" && orig != nil && idx%50 == 7 && len(out.Viol) == 0 && out.Infra == "" {
			out2 := runPlan(t, orig)
			sum.Rechecks++
			if out2.EventHash != out.EventHash || out2.Fingerprint != out.Fingerprint {
				sum.Mismatch++
				sum.Infra = append(sum.Infra, fmt.Sprintf("nondeterministic run seed=%d idx=%d", p.Seed, idx))
			}
		}
		for _, v := range out.Viol {
			if os.Getenv("VERIF_DEBUG") != "" && !dbgSeen[v.Sig] {
				dbgSeen[v.Sig] = true
				fmt.Printf("DEBUG viol idx=%d seed=%d props=%v sig=%s op=%d\n   %s\n", idx, p.Seed, v.Props, v.Sig, v.OpIndex, v.Detail)
				if len(p.Clients) > 0 && v.OpIndex >= 0 && v.OpIndex < len(p.Clients[0]) {
					fmt.Printf("   op: %s\n", p.Clients[0][v.OpIndex])
				}
				kb, _ := json.Marshal(p.Knobs)
				fmt.Printf("   knobs: %s extra: %v\n", kb, p.Extra)
			}
			if !v.speaksFor(prop) {
				sum.Observed[v.Oracle]++
				continue
			}
			if isKnown(known, prop, v.Sig) {
				sum.Known[v.Sig]++
				continue
			}
			if seenSig[v.Sig] {
				continue
			}
			seenSig[v.Sig] = true
			rep := violationReport{Sig: v.Sig, Oracle: v.Oracle, Seed: p.Seed, Detail: v.Detail}
			if replayDir != "" {
				mp, st, mv := minimise(t, p, v)
				sum.Minim = append(sum.Minim, st)
				rep.Replay = writeReplay(replayDir, mp, mv, st)
				rep.Detail = mv.Detail
			}
			sum.Violations = append(sum.Violations, rep)
			leaks += 5
		}
		if len(out.Viol) > 0 {
			leaks++
		}
		if len(sum.Violations) >= 3 || leaks > 400 {
			break
		}
	}
	for f := range fps {
		sum.Fps = append(sum.Fps, strconv.FormatUint(f, 16))
	}
	for s := range states {
		sum.States = append(sum.States, strconv.FormatUint(s, 16))
	}
	sort.Strings(sum.Fps)
	sort.Strings(sum.States)
	sum.WallS = time.Since(t0).Seconds()
	if hashOut != "" {
		_ = os.WriteFile(hashOut, []byte(strings.Join(hashLines, "\n")+"\n"), 0644)
	}
	if o := os.Getenv("VERIF_OUT"); o != "" {
		b, _ := json.Marshal(sum)
		if err := os.WriteFile(o, b, 0644); err != nil {
			t.Fatalf("write summary: %v", err)
		}
	}
}

// ---------------------------------------------------------------------------------------------
// minimisation and replay

type replayDoc struct {
	Property  string    `json:"property"`
	Oracle    string    `json:"oracle"`
	Signature string    `json:"signature"`
	Seed      uint64    `json:"seed"`
	Tier      string    `json:"tier"`
	Engine    string    `json:"engine"`
	Plan      *Plan     `json:"plan"`
	Minimised minimStat `json:"minimised"`
	Violation Violation `json:"violation"`
	EventHash string    `json:"event_log_hash"`
	LogTail   []string  `json:"event_log_tail"`
}

func findViol(out *RunOut, sig string) (Violation, bool) {
	for _, v := range out.Viol {
		if v.Sig == sig {
			return v, true
		}
	}
	return Violation{}, false
}

// minimise shrinks the plan while the same signature keeps failing.
func minimise(t *testing.T, p *Plan, v Violation) (*Plan, minimStat, Violation) {
	best := p.clone()
	best.Fixed = true
	st := minimStat{FromOps: p.nOps(), FromSw: len(p.Sched)}
	budget := 250
	runPlan := runPlan
	if v.Oracle == "race" {
		runPlan, budget = runPlanIsolated, 120
	}
	if p.Engine == "convert" {
		budget = 40 // every rerun enumerates the crash points again, and there are no operations to drop
	}
	budget = envInt("VERIF_MINBUDGET", budget) // (evaluation of seeded changes: the replay need not be small)
	try := func(c *Plan) bool {
		if st.Reruns >= budget {
			return false
		}
		st.Reruns++
		c.Fixed = true
		out := runPlan(t, c)
		if nv, ok := findViol(out, v.Sig); ok {
			best = c
			v = nv
			return true
		}
		return false
	}
	// confirm the fixed-stream replay fails at all; if not, keep the original
	{
		c := best.clone()
		out := runPlan(t, c)
		st.Reruns++
		nv, ok := findViol(out, v.Sig)
		if !ok {
			q := p.clone()
			q.Fixed = true
			return q, st, v
		}
		best, v = c, nv
	}
	// drop whole clients
	for ci := len(best.Clients) - 1; ci >= 0 && len(best.Clients) > 1; ci-- {
		c := best.clone()
		c.Clients = append(c.Clients[:ci], c.Clients[ci+1:]...)
		try(c)
	}
	// ddmin over operations of each client
	for ci := range best.Clients {
		chunk := (len(best.Clients[ci]) + 1) / 2
		for chunk >= 1 {
			progress := false
			for i := 0; i < len(best.Clients[ci]); {
				c := best.clone()
				j := min(len(c.Clients[ci]), i+chunk)
				c.Clients[ci] = append(append([]Op{}, c.Clients[ci][:i]...), c.Clients[ci][j:]...)
				if try(c) {
					progress = true
				} else {
					i += chunk
				}
				if st.Reruns >= budget {
					break
				}
			}
			if !progress || chunk == 1 {
				if chunk == 1 {
					break
				}
			}
			chunk /= 2
		}
	}
	// drop faults
	for i := len(best.Faults) - 1; i >= 0; i-- {
		c := best.clone()
		c.Faults = append(c.Faults[:i], c.Faults[i+1:]...)
		try(c)
	}
	if len(best.FaultS) > 0 {
		c := best.clone()
		c.FaultS = nil
		c.Knobs.FaultRate = 0
		try(c)
	}
	// fewer context switches: truncate the schedule stream (exhaustion = lowest-id runnable task)
	for n := len(best.Sched) / 2; n >= 1; n /= 2 {
		for len(best.Sched) > 0 {
			c := best.clone()
			keep := len(c.Sched) - n
			if keep < 0 {
				keep = 0
			}
			c.Sched = c.Sched[:keep]
			if !try(c) {
				break
			}
		}
	}
	if len(best.MapOrder) > 0 {
		c := best.clone()
		c.MapOrder = nil
		try(c)
	}
	// simpler strategy
	if best.Strat.Kind != "uniform" {
		c := best.clone()
		c.Strat = simrt.Strategy{Kind: "uniform"}
		try(c)
	}
	st.ToOps, st.ToSw = best.nOps(), len(best.Sched)
	return best, st, v
}

func writeReplay(dir string, p *Plan, v Violation, st minimStat) string {
	_ = os.MkdirAll(dir, 0755)
	c := p.clone()
	c.Fixed = true
	// final run to record the event log of the minimised plan
	out := runPlan(nil2t(), c)
	doc := replayDoc{Property: p.Prop, Oracle: v.Oracle, Signature: v.Sig, Seed: p.Seed, Tier: p.Tier, Engine: p.Engine,
		Plan: c, Minimised: st, Violation: v, EventHash: fmt.Sprintf("%016x", out.EventHash), LogTail: out.LogTail}
	b, _ := json.MarshalIndent(doc, "", " ")
	name := filepath.Join(dir, fmt.Sprintf("%s-%d-%s.json", p.Prop, p.Seed, shortHash(v.Sig)))
	_ = os.WriteFile(name, b, 0644)
	return name
}

var theT *testing.T
var dbgSeen = map[string]bool{}

func nil2t() *testing.T { return theT }

func shortHash(s string) string {
	h := fnv.New32a()
	h.Write([]byte(s))
	return fmt.Sprintf("%08x", h.Sum32())
}

func replayFile(t *testing.T, path string) {
	b, err := os.ReadFile(path)
	if err != nil {
		t.Fatalf("read replay: %v", err)
	}
	doc := replayDoc{}
	if err := json.Unmarshal(b, &doc); err != nil {
		t.Fatalf("parse replay: %v", err)
	}
	p := doc.Plan
	p.Fixed = true
	out := runPlan(t, p)
	res := map[string]any{"reproduced": false, "same_event_log": fmt.Sprintf("%016x", out.EventHash) == doc.EventHash,
		"event_log_hash": fmt.Sprintf("%016x", out.EventHash), "expected_hash": doc.EventHash, "infra": out.Infra}
	if v, ok := findViol(out, doc.Signature); ok {
		res["reproduced"] = true
		res["violation"] = v
	}
	if os.Getenv("VERIF_RACELOG") != "" {
		res["violations_seen"] = out.Viol
		res["plan"] = p
	} else if res["reproduced"] == false {
		res["violations_seen"] = out.Viol
	}
	rb, _ := json.MarshalIndent(res, "", " ")
	if o := os.Getenv("VERIF_OUT"); o != "" {
		_ = os.WriteFile(o, rb, 0644)
	}
	fmt.Println(string(rb))
}

func TestMain(m *testing.M) {
	os.Exit(m.Run())
}
