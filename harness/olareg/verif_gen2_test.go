//go:build go1.25

package olareg

// Planners and monitors for C14 (read-only / disabled switches), C15 (adversarial requests),
// C16 (isolation, path monitor).

import (
	"context"
	"fmt"
	"os"
	"path"
	"path/filepath"
	"sort"
	"strings"
	"time"

	"github.com/opencontainers/go-digest"

	"github.com/olareg/olareg/internal/store"
	"github.com/olareg/olareg/types"
)

func init() {
	planners["C14"] = planC14
	planners["C15"] = planC15
	planners["C16"] = planC16
	preseeders["layouts"] = preseedLayouts
	preseeders["sentinel"] = preseedSentinel
}

// ---------------------------------------------------------------------------------------------
// preseeders

// preseedLayouts writes the plan's objects into the repositories as pre-existing layouts.
// Extra["seed_layout"] = {"legacy":bool,"converted":bool,"bad":string,"stray":bool}
func preseedLayouts(w *World) {
	p := w.x.p
	r := newRng(p.Seed ^ 0x5eed)
	o := seedOpts{age: 240 * time.Hour}
	cfg, _ := p.Extra["seed_layout"].(map[string]any)
	if v, ok := cfg["legacy"].(bool); ok {
		o.legacy = v
	}
	if v, ok := cfg["converted"].(bool); ok {
		o.converted = v
	}
	if v, ok := cfg["stray"].(bool); ok {
		o.strayFiles = v
	}
	bad, _ := cfg["bad"].(string)
	for ri, repo := range p.Repos {
		var entries []seedEntry
		for i, ob := range p.Objs {
			if !ob.isManifest() && ob.Kind != "blob" {
				continue
			}
			if ob.Kind == "blob" && !r.chance(30) {
				continue
			}
			if ri > 0 && r.chance(50) {
				continue
			}
			e := seedEntry{obj: i}
			if ob.isManifest() && r.chance(60) {
				e.tag = fmt.Sprintf("t%d", i)
			}
			if ob.Kind == "blob" {
				e.skipIndex = true
			}
			entries = append(entries, e)
		}
		ro := o
		if bad != "" && ri == len(p.Repos)-1 && len(p.Repos) > 1 {
			ro.badIndex = bad
			// a corrupt repository is not mirrored into the model
			mm := w.m
			w.m = newModel(w.k)
			w.seedRepo(w.root, repo, entries, ro)
			w.m = mm
			w.x.extra["corrupt:"+repo] = true
			w.tainted[repo] = true // storage of this repository is not healthy: nothing is claimed about it except no panic / no wrong bytes
			continue
		}
		w.seedRepo(w.root, repo, entries, ro)
	}
	w.x.extra["tree0"] = scanTree(w.root)
}

// preseedSentinel moves the storage root into a sentinel directory that also holds a sibling layout.
func preseedSentinel(w *World) {
	p := w.x.p
	sent := filepath.Dir(w.root)
	out := filepath.Join(sent, "outside")
	// the sibling layout holds every blob object of the plan
	mm := w.m
	w.m = newModel(w.k)
	var entries []seedEntry
	for i, ob := range p.Objs {
		if ob.Kind == "blob" {
			entries = append(entries, seedEntry{obj: i, skipIndex: true})
		}
	}
	w.seedRepo(sent, "outside", entries, seedOpts{age: time.Hour, converted: true})
	w.m = mm
	w.x.extra["sentinel"] = scanTree(out)
	w.x.extra["sentinelDir"] = out
}

// ---------------------------------------------------------------------------------------------
// monitors (run after the server was closed)

func (w *World) monitors() {
	p := w.x.p
	mon, _ := p.Extra["monitor"].(string)
	switch mon {
	case "ro":
		w.monitorReadOnly()
	case "iso":
		w.monitorPaths()
	}
}

// monitorReadOnly: no mutating filesystem operation below the root, tree unchanged.
func (w *World) monitorReadOnly() {
	if w.root == "" {
		return
	}
	for _, e := range w.x.sim.FS.Log {
		if e.Mut && strings.HasPrefix(e.Path, w.root) && e.Err != "detached" {
			what := e.Op
			who := "request"
			if len(e.Tag) == 0 {
				who = "background"
			}
			w.x.viol([]string{"C14"}, "ro.mutating-op", fmt.Sprintf("%s by %s (%s store)", what, who, w.k.Store), fmt.Sprintf("store %s readonly=%v issued %s %s (task %s, request %q, result %q)", w.k.Store, w.k.readOnly(), e.Op, strings.ReplaceAll(e.Path, w.root, ""), e.Task, e.Tag, e.Err))
			break
		}
	}
	if t0, ok := w.x.extra["tree0"].(map[string]fileInfo); ok {
		if d := diffTrees(t0, scanTree(w.root), true); len(d) > 0 {
			sort.Strings(d)
			kind, _, _ := strings.Cut(d[0], " ")
			w.x.viol([]string{"C14"}, "ro.tree-changed", kind, fmt.Sprintf("directory below the root changed although store %s readonly=%v: %v", w.k.Store, w.k.readOnly(), d))
		}
	}
}

func allowedRepoPath(root, repo, p string) bool {
	base := filepath.Join(root, repo)
	if p == base {
		return true
	}
	if !strings.HasPrefix(p, base+"/") {
		return false
	}
	rel := strings.TrimPrefix(p, base+"/")
	first, _, _ := strings.Cut(rel, "/")
	switch {
	case first == "oci-layout", first == "blobs", first == "_uploads", first == "index.json", strings.HasPrefix(first, "index.json."):
		return true
	}
	return false
}

// monitorPaths: every filesystem path lies inside the root and inside the directory of a repository
// the responsible request addresses.
func (w *World) monitorPaths() {
	if w.root == "" {
		return
	}
	known := w.allRepoNames()
	for r := range w.addressed {
		known = append(known, r)
	}
	for _, e := range w.x.sim.FS.Log {
		paths := []string{e.Path}
		if e.Op == "rename" {
			paths = strings.Split(e.Path, " -> ")
		}
		for _, p := range paths {
			p = filepath.Clean(p)
			if p != w.root && !strings.HasPrefix(p, w.root+"/") {
				w.x.viol([]string{"C16"}, "iso.path-outside-root", e.Op, fmt.Sprintf("%s %s (task %s, request %q) lies outside the root %s", e.Op, p, e.Task, e.Tag, w.root))
				return
			}
			cands := e.Repos
			if e.Repos == nil || e.Tag == "" {
				cands = known
			}
			ok := p == w.root
			for _, r := range cands {
				if reRepo.MatchString(r) && allowedRepoPath(w.root, r, p) {
					ok = true
				}
			}
			if !ok {
				w.x.viol([]string{"C16"}, "iso.path-other-repo", e.Op, fmt.Sprintf("%s %s (task %s, request %q addressing %v) is not inside the directory of an addressed repository", e.Op, strings.ReplaceAll(p, w.root, ""), e.Task, e.Tag, e.Repos))
				return
			}
		}
	}
	if t0, ok := w.x.extra["sentinel"].(map[string]fileInfo); ok {
		dir, _ := w.x.extra["sentinelDir"].(string)
		if d := diffTrees(t0, scanTree(dir), false); len(d) > 0 {
			w.x.viol([]string{"C16"}, "iso.path-outside-root", "sentinel changed", fmt.Sprintf("sibling directory outside the root changed: %v", d))
		}
	}
}

// ---------------------------------------------------------------------------------------------
// C14

func planC14(prop string, seed uint64, tier string, idx int) *Plan {
	if idx%8 == 7 {
		// legacy layouts and interrupted conversions opened read-only (convert engine)
		p := planC17(prop, seed, tier, idx)
		p.Knobs.Store = "dir" // the conversion whose crash points are taken is the directory store's
		p.Extra["ro"] = true
		p.Profile = "read-only on legacy layouts and interrupted conversions"
		return p
	}
	g := newGen(seed, tier)
	g.p.Profile = "read-only"
	g.repos(g.r.between(1, 3))
	k := &g.p.Knobs
	switch idx % 5 {
	case 0, 1:
		k.Store, k.ReadOnly = "dir", 1
		g.p.Profile = "dir read-only"
	case 2:
		k.Store, k.ReadOnly = "memdir", -1
		g.p.Profile = "mem over dir"
	case 3:
		k.Store, k.ReadOnly = "memdir", 1
		g.p.Profile = "mem over dir read-only"
	default:
		// switches only (writable store): disabled APIs must refuse and change nothing
		k.Store = g.r.str("dir", "mem")
		k.ReadOnly = g.r.pick(-1, 0, 1)
		g.p.Profile = "switch matrix"
	}
	k.Push = g.r.pick(-1, 0, 1, 1)
	k.Delete = g.r.pick(-1, 0, 1, 1)
	k.BlobDelete = g.r.pick(-1, 0, 1, 1)
	if g.r.chance(40) {
		k.GCFreqMs = int64(g.r.pick(100, 5000, 60000))
		k.GCGraceMs = int64(g.r.pick(-1, 1000, 60000, 0))
		k.Untagged = g.r.pick(-1, 0) // collection of untagged manifests is the business of C05/C06
	}
	subj := g.newImage(-1, -1)
	img2 := g.newImage(-1, subj)
	index := g.newIndex([]int{subj}, -1)
	art := g.newImage(subj, -1)
	art2 := g.newImage(subj, -1)
	extra := g.newBlob(g.r.between(1, 300))
	_ = img2
	_ = index
	if g.p.Profile == "switch matrix" && k.Store == "mem" {
		// the referrers switch (a store without pre-existing layouts: a converted layout cannot be opened with the API off)
		k.Referrer = g.r.pick(-1, 0, 0, 1)
		if g.r.chance(60) {
			art2 = g.newIndex(nil, subj) // an artifact may be an index as well as an image
		}
	}
	if g.p.Profile != "switch matrix" || k.Store == "dir" {
		k.Preseed = "layouts"
		cfg := map[string]any{"converted": true}
		switch g.r.intn(6) {
		case 0, 1:
			cfg = map[string]any{"legacy": true}
		case 2:
			cfg["bad"] = g.r.str("garbage", "dir", "missing")
		case 3:
			cfg["stray"] = true
		}
		g.p.Extra["seed_layout"] = cfg
		if g.p.Profile != "switch matrix" {
			g.p.Extra["monitor"] = "ro"
		}
	}
	if idx%10 >= 5 && k.Preseed != "" && g.p.Profile != "switch matrix" {
		// transient read errors (open, stat, readdir fail for single requests): nothing is written all the same, and once
		// the errors are over everything is served as before
		g.p.Profile += " + read errors, model re-synchronised"
		k.FaultRate = g.r.pick(20, 60, 150)
		k.FaultKinds = []string{"read"}
		k.FaultRecover = true
		k.GCFreqMs = -1
	}
	// sha512 subjects of legacy layouts are the business of C17
	for _, o := range g.p.Objs {
		o.SubjAlgo = ""
	}
	n := g.scale(g.r.between(6, 20))
	for i := 0; i < n; i++ {
		repo := g.r.intn(g.nrepos())
		switch g.r.intn(16) {
		case 0, 1:
			g.add(g.blobOp(repo, extra, true))
		case 2:
			op := Op{K: "blob", Mode: "mount", Repo: repo, Obj: g.p.Objs[subj].Config, From: g.r.intn(g.nrepos()), Sess: g.nextSess(), A: g.r.intn(2)}
			g.add(op)
		case 3, 4:
			m := g.r.pick(subj, img2, index, art, art2)
			op := Op{K: "man", Repo: repo, Obj: m, Tag: g.r.str("", "new", "t0")}
			g.add(op)
		case 5:
			g.add(Op{K: "del", Mode: "tag", Repo: repo, Tag: g.r.str("t0", "t1", "t2", "t3", "new", fmt.Sprintf("t%d", subj))})
		case 6:
			g.add(Op{K: "del", Mode: "man", Repo: repo, Obj: g.r.pick(subj, img2, index, art)})
		case 7:
			g.add(Op{K: "del", Mode: "blob", Repo: repo, Obj: g.r.pick(extra, g.p.Objs[subj].Config)})
		case 8, 9:
			if k.ReadOnly == 1 && g.r.chance(35) {
				g.add(Op{K: "storeapi", Repo: repo, A: g.r.intn(1000)})
				g.add(g.tagsOp(repo))
				break
			}
			op := g.readOp(repo)
			if op.Mode == "tag" {
				op.Tag = fmt.Sprintf("t%d", g.r.pick(subj, img2, index, art, art2))
			}
			g.add(op)
		case 10:
			g.add(g.tagsOp(repo))
		case 11, 12:
			g.add(Op{K: "refs", Repo: repo, Obj: subj, A: g.r.intn(2), Filter: g.r.str("", "", "application/vnd.example.sig")})
		case 13:
			g.add(Op{K: "sleep", Ms: g.sleepMs()})
		case 14:
			g.add(Op{K: "check"})
		default:
			g.add(Op{K: "get", Mode: "man", Repo: repo, Obj: g.r.pick(subj, img2, index, art), Accept: "all"})
		}
	}
	return g.finish(prop, "manifest-read", "blob-read", "referrers-nonempty")
}

// ---------------------------------------------------------------------------------------------
// C15

var fuzzRepos = []string{"a", "a/b", "r0", "proj/app", "A", "a..b", "-a", "a/", "", "blobs", "index.json", "a/blobs", "oci-layout", "a/b/c/d/e/f", strings.Repeat("x", 300), "a_b", "a__b", "a___b", "a.b-c", "é", "a%2Fb", "..", "a/../b", ".", "a/./b", "v2", "a/manifests/b"}

func (g *gen) fuzzDigest() string {
	switch g.r.intn(12) {
	case 0:
		return "sha256:" + strings.Repeat("0", 64)
	case 1:
		return "sha256:xyz"
	case 2:
		return "sha256:"
	case 3:
		return "md5:d41d8cd98f00b204e9800998ecf8427e"
	case 4:
		return "sha256:" + strings.ToUpper(strings.Repeat("ab", 32))
	case 5:
		return "sha512:" + strings.Repeat("a", 128)
	case 6:
		return "sha256:" + strings.Repeat("a", 63)
	case 7:
		return "sha256-" + strings.Repeat("a", 64)
	case 8:
		return ":" + strings.Repeat("a", 64)
	case 9:
		return "sha384:" + strings.Repeat("b", 96)
	}
	// a digest of a known object
	i := g.anyObj(func(o *Obj) bool { return true })
	o := g.p.Objs[i]
	if len(o.data) == 0 && o.Kind != "blob" {
		materialise(g.p.Objs)
	}
	return o.digest(g.refAlgo())
}

func (g *gen) fuzzNum() string {
	return g.r.str("0", "1", "-1", "2", "99999999999999999999", "-99999999999999999999", "abc", "", "1e3", "0x10", " 1", "1.5", "2147483648", "9223372036854775807", "-9223372036854775808", strings.Repeat("9", 400))
}

// fuzzLive aims adversarial requests at a session that is open right now: "{loc}" in the path is replaced at run time by
// the Location of the latest 202 the server gave for an upload (path and state), the text after it is the path used when
// no session was opened yet. Bodies and digests are those of real blobs, consistent or not with what the session was
// opened for, with ranges, lengths and state tokens at and beyond their bounds.
func (g *gen) fuzzLive() Op {
	r := g.r
	repo := g.p.Repos[r.intn(len(g.p.Repos))]
	blob := func() *Obj {
		return g.p.Objs[g.anyObj(func(o *Obj) bool { return o.Kind == "blob" && len(o.data) > 0 })]
	}
	rq := &RawReq{Hdr: map[string][]string{}}
	var q []string
	if r.chance(30) {
		rq.Method, rq.Path = "POST", "/v2/"+repo+"/blobs/uploads/"
		switch r.intn(5) {
		case 0:
			q = append(q, "mount="+blob().digest("sha256"))
		case 1:
			q = append(q, "mount="+blob().digest("sha256"), "from="+r.str("nosuch", repo, "a", "a/b", "Hidden", "../outside", repo+"/../Hidden"))
		case 2:
			q = append(q, "digest-algorithm="+r.str("sha256", "sha512"))
		case 3:
			b := blob()
			q = append(q, "digest="+b.digest(r.str("sha256", "sha512")))
			rq.Body = append([]byte{}, b.data...)
		}
		rq.Query = strings.Join(q, "&")
		return Op{K: "raw", Raw: rq}
	}
	rq.Method = r.str("PATCH", "PATCH", "PATCH", "PUT", "PUT", "PUT", "PUT", "GET", "DELETE", "POST", "HEAD")
	rq.Path = r.str("{loc}", "{loc}", "{loc}", "{loc-nostate}") + "/v2/" + repo + "/blobs/uploads/nosuchsession"
	b := blob()
	switch r.intn(6) {
	case 0, 1, 2:
		rq.Body = append([]byte{}, b.data...)
	case 3:
		rq.Body = append([]byte{}, b.data[:len(b.data)/2]...)
	case 4:
		rq.Body = []byte(strings.Repeat("\xff\x00z", r.between(1, 200)))
	}
	switch r.intn(8) {
	case 0, 1, 2:
		q = append(q, "digest="+b.digest(r.str("sha256", "sha256", "sha512")))
	case 3, 4:
		q = append(q, "digest="+blob().digest("sha256"))
	case 5:
		q = append(q, "digest="+g.fuzzDigest())
	case 6:
		q = append(q, "digest="+b.digest("sha256"), "digest="+blob().digest("sha256"))
	}
	if r.chance(15) {
		q = append(q, "state="+r.str("", "e30", "eyJvZmZzZXQiOjB9", "eyJvZmZzZXQiOi0xfQ", "eyJvZmZzZXQiOjF9", "!!!", "bnVsbA", "eyJvZmZzZXQiOiJhIn0"))
	}
	if r.chance(35) {
		n := len(rq.Body)
		rq.Hdr["Content-Range"] = []string{r.str(fmt.Sprintf("0-%d", n-1), fmt.Sprintf("0-%d", n-1), fmt.Sprintf("0-%d", n), fmt.Sprintf("1-%d", n), fmt.Sprintf("%d-%d", n, 2*n-1), "0-0", "5-", "-", "a-b", "99999999999999999999-1", "0-99999999999999999999", "1-0", "", "bytes 0-1/2", "5", "0", "-5", "bytes", "0--1", "0-1-2", " 0-1", "0 - 1")}
	}
	if r.chance(15) {
		rq.Hdr["Content-Type"] = []string{r.str("application/octet-stream", "", "text/plain", ";")}
	}
	if r.chance(10) {
		rq.Hdr["Content-Length"] = []string{g.fuzzNum()}
	}
	switch r.intn(10) {
	case 0:
		rq.CL = -1
	case 1:
		rq.CL = int64(len(rq.Body)) + 10
	case 2:
		if len(rq.Body) > 2 {
			rq.CL = int64(len(rq.Body)) - 1
		}
	}
	rq.Query = strings.Join(q, "&")
	return Op{K: "raw", Raw: rq}
}

func (g *gen) fuzzRaw() Op {
	r := g.r
	if len(g.p.Repos) > 0 && r.chance(18) {
		return g.fuzzLive()
	}
	rq := &RawReq{Method: r.str("GET", "GET", "HEAD", "PUT", "POST", "PATCH", "DELETE", "OPTIONS", "FOO", "TRACE", "CONNECT")}
	repo := fuzzRepos[r.intn(len(fuzzRepos))]
	if r.chance(55) && len(g.p.Repos) > 0 {
		repo = g.p.Repos[r.intn(len(g.p.Repos))]
	}
	ref := r.str("latest", "v1", "nosuch", "-bad", strings.Repeat("t", 129), "a:b", "", "..", "t!", "sha256:abc")
	if r.chance(50) {
		ref = g.fuzzDigest()
	}
	sess := r.str("nosuchsession", "", "..", strings.Repeat("s", 200), "AAAAAAAAAAAAAAAAAAAAAA", "a%2Fb")
	tmpl := r.intn(14)
	switch tmpl {
	case 0:
		rq.Path = "/v2/"
	case 1:
		rq.Path = "/v2/" + repo + "/manifests/" + ref
	case 2:
		rq.Path = "/v2/" + repo + "/blobs/" + g.fuzzDigest()
	case 3:
		rq.Path = "/v2/" + repo + "/blobs/uploads/"
	case 4:
		rq.Path = "/v2/" + repo + "/blobs/uploads/" + sess
	case 5:
		rq.Path = "/v2/" + repo + "/tags/list"
	case 6:
		rq.Path = "/v2/" + repo + "/referrers/" + ref
	case 7:
		rq.Path = r.str("/", "", "/v2", "/v1/", "/v3/a/tags/list", "//v2//a//tags//list", "/v2/a/../b/tags/list", "/v2/%2e%2e/x/tags/list", "/v2/a/blobs/uploads/../../../x", "/v2/a/tags/list/", "/v2/a/tags", "/v2/a/manifests", "/v2/a/blobs", "/v2/../../etc/passwd", "/v2/a/manifests/x/y", "/v2/manifests/x", "/v2//manifests/x", "/v2/%ff/tags/list", "/v2/a/referrers/")
	case 8:
		rq.Path = "/v2/" + repo + "/" + r.str("manifests", "blobs", "tags", "referrers", "uploads", "_uploads") + "/" + ref
	default:
		rq.Path = "/v2/" + repo + "/" + r.str("manifests/"+ref, "blobs/"+g.fuzzDigest(), "tags/list", "referrers/"+g.fuzzDigest(), "blobs/uploads/", "blobs/uploads/"+sess)
	}
	q := []string{}
	addQ := func(k, v string) {
		q = append(q, k+"="+strings.ReplaceAll(strings.ReplaceAll(v, " ", "+"), "&", "%26"))
	}
	for i := r.intn(4); i > 0; i-- {
		switch r.intn(11) {
		case 0:
			addQ("n", g.fuzzNum())
		case 1:
			addQ("last", r.str("a", "zzz", "", "é", strings.Repeat("l", 500), "v1"))
		case 2:
			addQ("page", g.fuzzNum())
		case 3:
			addQ("cache", g.fuzzDigest())
		case 4:
			addQ("state", r.str("", "e30", "eyJvZmZzZXQiOjB9", "eyJvZmZzZXQiOi0xfQ", "!!!", "bnVsbA", "eyJvZmZzZXQiOiJhIn0", strings.Repeat("A", 1000)))
		case 5:
			addQ("digest", g.fuzzDigest())
		case 6:
			addQ("digest-algorithm", r.str("sha256", "sha512", "sha384", "md5", "", "SHA256", "sha1", strings.Repeat("x", 100)))
		case 7:
			addQ("mount", g.fuzzDigest())
		case 8:
			addQ("from", r.str("a", "a/b", "nosuch", "A", "a..b", "", strings.Repeat("f", 300), "../outside", "Hidden", "a/../Hidden", "./a", "a//b", "..", "%2e%2e/outside"))
		case 9:
			addQ("artifactType", r.str("", "text/plain", "application/vnd.example.sig", strings.Repeat("t", 300)))
		default:
			addQ(r.str("x", "n", "digest"), r.str("%00", "%zz", "a%20b"))
		}
	}
	rq.Query = strings.Join(q, "&")
	if strings.Contains(rq.Query, "%zz") {
		rq.Query = strings.ReplaceAll(rq.Query, "%zz", "%7a")
	}
	rq.Hdr = map[string][]string{}
	for i := r.intn(4); i > 0; i-- {
		switch r.intn(8) {
		case 0:
			rq.Hdr["Content-Range"] = []string{r.str("0-0", "5-", "-", "a-b", "99999999999999999999-1", "0-99999999999999999999", "-5", "1-0", "", "bytes 0-1/2", "5", "0", "bytes", "0--1", "0-1-2")}
		case 1:
			rq.Hdr["Content-Type"] = []string{r.str(mtOCIManifest, mtOCIIndex, mtDockManifest, mtDockList, "application/json", "text/plain", "", ";", "a/b;c=d", strings.Repeat("m", 300))}
		case 2:
			rq.Hdr["Accept"] = []string{r.str(mtOCIManifest, mtOCIIndex, "*/*", "", ",,,", "application/json;q=0.5, "+mtOCIIndex)}
		case 3:
			rq.Hdr["Range"] = []string{r.str("bytes=0-0", "bytes=-1", "bytes=5-", "bytes=0-1,3-4", "bytes=a-b", "items=0-1", "bytes=99999999999999999999-", "bytes=-0", "")}
		case 4:
			rq.Hdr["If-None-Match"] = []string{r.str("*", `"abc"`, "")}
		case 5:
			rq.Hdr["X-Forwarded-For"] = []string{r.str("1.2.3.4", "1.2.3.4, 5.6.7.8", "", "garbage")}
		case 6:
			rq.Hdr["If-Range"] = []string{r.str(`"x"`, "Wed, 21 Oct 2015 07:28:00 GMT")}
		default:
			rq.Hdr["Content-Length"] = []string{g.fuzzNum()}
		}
	}
	switch r.intn(8) {
	case 0:
		rq.Body = []byte("{}")
	case 1:
		rq.Body = []byte(`{"schemaVersion":2,"mediaType":"` + mtOCIIndex + `","manifests":[]}`)
	case 2:
		rq.Body = []byte(`{"schemaVersion":2,"config":{"mediaType":"x","digest":"sha256:zz","size":-1},"layers":[{"digest":""}]}`)
	case 3:
		rq.Body = []byte(strings.Repeat("\xff\x00z", r.between(1, 2000)))
	case 4:
		rq.Body = []byte(`{"schemaVersion":2,"manifests":[{"digest":"` + g.fuzzDigest() + `"}],"subject":{"digest":"` + g.fuzzDigest() + `"}}`)
	case 5:
		rq.Body = []byte(`[1,2,3]`)
	case 6:
		// documents without a mediaType whose lists are empty, null or hold nulls (the type has to be detected from them)
		rq.Body = []byte(r.str(`{"schemaVersion":2,"manifests":[]}`, `{"schemaVersion":2,"manifests":null}`, `{"schemaVersion":2,"layers":[]}`,
			`{"schemaVersion":2,"config":{},"layers":null}`, `{"schemaVersion":2,"manifests":[],"layers":[]}`, `{"schemaVersion":2,"manifests":[null]}`,
			`{"schemaVersion":2,"config":null,"layers":[null]}`, `{"schemaVersion":2,"manifests":[{}]}`, `{"schemaVersion":2,"manifests":[],"subject":{}}`, `null`, `{"manifests":{}}`))
	}
	switch r.intn(6) {
	case 0:
		rq.CL = -1
	case 1:
		rq.CL = int64(len(rq.Body)) + 10
	case 2:
		if len(rq.Body) > 2 {
			rq.CL = int64(len(rq.Body)) - 1
		}
	}
	rq.Addr = r.str("", "192.0.2.7:1", "[2001:db8::1]:443", "noport", "")
	return Op{K: "raw", Raw: rq}
}

func planC15(prop string, seed uint64, tier string, idx int) *Plan {
	g := newGen(seed, tier)
	g.p.Profile = "adversarial requests"
	g.repos(g.r.between(1, 2))
	g.storeKnob("dir", "dir", "mem", "memdir")
	k := &g.p.Knobs
	if g.r.chance(30) {
		k.Push, k.Delete, k.BlobDelete, k.Referrer = g.r.pick(-1, 0, 1), g.r.pick(-1, 0, 1), g.r.pick(-1, 0, 1), g.r.pick(-1, 0, 1)
	}
	if g.r.chance(15) {
		k.ReadOnly = 1
	}
	if g.r.chance(30) {
		k.RefLimit = int64(g.r.pick(300, 500, 900))
	}
	if g.r.chance(30) {
		k.UploadMax = g.r.pick(1, 2, 3)
	}
	if g.r.chance(20) {
		k.ManifestLimit = int64(g.r.pick(100, 500, 2000))
	}
	if g.r.chance(25) {
		k.GCFreqMs, k.GCGraceMs, k.Untagged = int64(g.r.pick(50, 2000)), int64(g.r.pick(-1, 500, 0)), g.r.pick(0, 1)
	}
	if idx%4 == 3 && k.Store != "mem" {
		g.p.Profile = "adversarial requests + disk faults"
		k.FaultRate = g.r.pick(20, 60, 150)
		k.FaultKinds = [][]string{{"read"}, {"write"}, {"meta"}, {"read", "write", "meta"}}[g.r.intn(4)]
		k.FaultRecover = idx%8 == 7
	}
	subj := g.newImage(-1, -1)
	var arts []int
	for i := g.r.between(0, 5); i > 0; i-- {
		arts = append(arts, g.newImage(subj, -1))
	}
	materialise(g.p.Objs)
	// phase 1: an ordinary, model-checked history that builds state
	n1 := g.r.between(0, 8)
	for i := 0; i < n1; i++ {
		repo := g.r.intn(g.nrepos())
		switch g.r.intn(8) {
		case 0, 1:
			g.pushManifest(repo, subj, g.r.str("", "latest", "v1"), false)
		case 2, 3:
			if len(arts) > 0 {
				g.pushManifest(repo, arts[g.r.intn(len(arts))], "", false)
			}
		case 4:
			sn := g.nextSess()
			g.add(Op{K: "sess", Act: "post", Repo: repo, Sess: sn, Obj: g.p.Objs[subj].Config})
			if gr := k.grace().Milliseconds(); gr > 0 && gr <= 1000 && k.FaultRate == 0 && g.r.chance(60) {
				// a slow client: the pieces of the body are further apart than the grace period, the session expires under
				// the request (a client-side condition: the answer is a 4xx)
				g.add(Op{K: "sess", Act: g.r.str("patch", "put"), Sess: sn, Obj: g.p.Objs[subj].Config, A: 1 << 20, B: 1, Ms: gr * 3 / 2})
			}
		case 5:
			g.add(Op{K: "refs", Repo: repo, Obj: subj, A: 1})
		case 6:
			g.add(g.tagsOp(repo))
		default:
			g.add(g.readOp(repo))
		}
	}
	// phase 2: adversarial requests (only the generic oracles apply once state may have been changed behind the model)
	g.add(Op{K: "quiet"})
	n2 := g.scale(g.r.between(10, 40))
	for i := 0; i < n2; i++ {
		g.add(g.fuzzRaw())
		if g.r.chance(5) {
			g.add(Op{K: "sleep", Ms: int64(g.r.pick(1, 100, 3000))})
		}
	}
	return g.finish(prop)
}

// ---------------------------------------------------------------------------------------------
// C16

// planC16Nested: repositories nested in each other, one of them is emptied and collected (the directory of an emptied
// repository is removed) while the ones below or above it hold tagged images that have to stay.
func planC16Nested(prop string, seed uint64, tier string) *Plan {
	g := newGen(seed, tier)
	g.p.Profile = "isolation: nested repositories, one of them emptied and collected"
	pools := [][]string{{"a", "a/b", "a/b/c"}, {"a", "a/b"}, {"proj", "proj/app"}, {"lib/one", "lib/two", "lib"}, {"team/app/web", "team"}}
	g.p.Repos = pools[g.r.intn(len(pools))]
	g.storeKnob("dir", "dir", "dir", "mem")
	k := &g.p.Knobs
	if k.Store != "mem" {
		k.Preseed = "sentinel"
		g.p.Extra["monitor"] = "iso"
	}
	k.Delete, k.BlobDelete = 1, g.r.pick(-1, 1)
	k.GCGraceMs = int64(g.r.pick(-1, -1, 500))
	k.GCFreqMs = int64(g.r.pick(-1, -1, 200, 5000))
	k.EmptyRepo = g.r.pick(-1, -1, 1)
	k.Untagged = g.r.pick(-1, 1)
	imgs := []int{g.newImage(-1, -1), g.newImage(-1, -1)}
	loose := g.newBlob(g.r.between(1, 200))
	victim := g.r.intn(g.nrepos())
	for r := range g.p.Repos {
		if r != victim || g.r.chance(30) {
			g.pushManifest(r, imgs[g.r.intn(2)], g.r.str("v1", "keep"), false)
		}
	}
	// the victim gets content that goes away again
	for i := g.r.between(1, 3); i > 0; i-- {
		switch g.r.intn(3) {
		case 0:
			g.add(g.blobOp(victim, loose, true))
			g.markBlob(victim, loose)
		case 1:
			g.pushManifest(victim, imgs[g.r.intn(2)], "", false)
		default:
			g.pushManifest(victim, imgs[g.r.intn(2)], "tmp", false)
		}
	}
	for i := g.r.between(2, 6); i > 0; i-- {
		switch g.r.intn(6) {
		case 0, 1:
			if m, ok := g.pushedMan(victim); ok {
				g.add(Op{K: "del", Mode: "man", Repo: victim, Obj: m})
				delete(g.mansIn[victim], m)
			}
		case 2:
			g.add(Op{K: "del", Mode: "tag", Repo: victim, Tag: g.r.str("tmp", "v1", "keep")})
		case 3:
			g.add(Op{K: "del", Mode: "blob", Repo: victim, Obj: loose})
		case 4:
			g.add(Op{K: "sleep", Ms: int64(g.r.pick(300, 1000, 6000))})
		default:
			g.add(Op{K: "gc", Repo: g.r.pick(-1, victim)})
		}
	}
	g.add(Op{K: "gc", Repo: -1})
	g.add(Op{K: "sleep", Ms: 6000})
	g.add(Op{K: "check"})
	for r := range g.p.Repos {
		g.add(g.readOp(r))
		g.add(g.tagsOp(r))
	}
	if k.Store == "dir" && g.r.chance(40) {
		g.add(Op{K: "restart"})
		g.add(Op{K: "check"})
	}
	return g.finish(prop)
}

func planC16(prop string, seed uint64, tier string, idx int) *Plan {
	if idx%6 == 5 {
		return planC16Nested(prop, seed, tier)
	}
	g := newGen(seed, tier)
	g.p.Profile = "isolation"
	pools := [][]string{{"a", "a/b", "a/b/c"}, {"a", "a/b"}, {"proj", "proj/app"}, {"x", "xy"}, {"lib/one", "lib/two", "lib"}, {"index", "index/json"}, {"a/uploads", "a"}}
	g.p.Repos = pools[g.r.intn(len(pools))]
	g.storeKnob("dir", "dir", "mem", "memdir")
	k := &g.p.Knobs
	if k.Store != "mem" {
		k.Preseed = "sentinel"
		g.p.Extra["monitor"] = "iso"
	}
	if g.r.chance(30) {
		k.GCFreqMs, k.GCGraceMs, k.Untagged = int64(g.r.pick(100, 2000)), int64(g.r.pick(-1, 1000, 0)), g.r.pick(0, 1)
	}
	if idx%6 == 3 && k.Store == "dir" {
		// a failing mkdir, stat or create must not make the store fall back to a place outside the repository
		g.p.Profile = "isolation + disk faults"
		k.FaultRate = g.r.pick(20, 60, 150)
		k.FaultKinds = [][]string{{"meta"}, {"meta"}, {"write", "meta"}, {"read", "write", "meta"}}[g.r.intn(4)]
	}
	nb := g.r.between(2, 4)
	var blobs []int
	for i := 0; i < nb; i++ {
		blobs = append(blobs, g.newBlob(g.r.between(1, 200)))
	}
	img := g.newImage(-1, -1)
	art := g.newImage(img, -1)
	arts := []int{art}
	if idx%6 == 1 {
		// listings long enough to be paged: the continuation of one repository's listing is sent to the others
		g.p.Profile = "isolation + paged referrers"
		k.RefLimit = int64(g.r.pick(300, 500, 900))
		for i := 0; i < g.r.between(2, 4); i++ {
			arts = append(arts, g.newImage(img, -1))
		}
	}
	reserved := []string{"index.json", "oci-layout", "blobs", "a/blobs", "a/index.json/b", "a/oci-layout"}
	// indexes whose child "digest" is a path out of the repository: to a blob of a sibling, to the sibling's index, to
	// a file outside the root (the sentinel directory holds every blob of the plan)
	materialise(g.p.Objs)
	hex := strings.TrimPrefix(g.p.Objs[blobs[0]].digest("sha256"), "sha256:")
	var trav []int
	for _, d := range []string{"sha256:../../../" + g.p.Repos[len(g.p.Repos)-1] + "/blobs/sha256/" + hex, "sha256:../../../" + g.p.Repos[0] + "/index.json",
		"sha256:../../../../outside/blobs/sha256/" + hex, "sha256:../../index.json", "sha256:../sha256/" + hex} {
		g.p.Objs = append(g.p.Objs, &Obj{Kind: "raw", Raw: `{"schemaVersion":2,"mediaType":"` + mtOCIIndex + `","manifests":[{"mediaType":"` + mtOCIManifest + `","digest":"` + d + `","size":` + fmt.Sprint(g.p.Objs[blobs[0]].Size) + `}]}`, Subject: -1})
		trav = append(trav, len(g.p.Objs)-1)
	}
	n := g.scale(g.r.between(6, 20))
	for i := 0; i < n; i++ {
		repo := g.r.intn(g.nrepos())
		switch g.r.intn(17) {
		case 16:
			ti := trav[g.r.intn(len(trav))]
			g.add(Op{K: "man", Repo: repo, Obj: ti, Tag: "trav", CT: g.r.str(mtOCIIndex, "none")})
			g.add(Op{K: "get", Mode: "tag", Repo: repo, Tag: "trav", Accept: g.r.str("other", "all")})
		case 0, 1, 2:
			b := blobs[g.r.intn(len(blobs))]
			g.add(g.blobOp(repo, b, true))
			g.markBlob(repo, b)
		case 3, 4, 5, 6:
			// mounts: existing / missing source, odd from strings
			b := blobs[g.r.intn(len(blobs))]
			op := Op{K: "blob", Mode: "mount", Repo: repo, Obj: b, From: g.r.intn(g.nrepos()), Sess: g.nextSess(), A: 0, Algo2: ""}
			switch g.r.intn(8) {
			case 0:
				op.FromS = "../outside"
			case 1:
				op.FromS = g.r.str("nosuch", "a/nosuch", "UPPER")
			case 2:
				op.FromS = g.r.str("/outside", "a/../../outside", "..", "./a", "a//b", "a/./b", "%2e%2e/outside", "../"+filepathBase(g.p.Repos[0]))
			case 3:
				op.FromS = g.r.str("../outside/", "..%2Foutside", "a/b/../../../outside")
			}
			g.add(op)
		case 7:
			if len(arts) > 1 {
				for _, a := range arts {
					if g.r.chance(70) {
						g.pushManifest(repo, a, "", false)
					}
				}
				g.add(Op{K: "refs", Repo: repo, Obj: img})
				break
			}
			g.pushManifest(repo, g.r.pick(img, art), g.r.str("", "v1", "shared"), false)
		case 8:
			// session of one repository used through another
			s := g.nextSess()
			g.add(Op{K: "sess", Act: "post", Repo: repo, Sess: s, Obj: blobs[0]})
			g.add(Op{K: "sess", Act: g.r.str("patch", "get", "put", "delete"), Sess: s, Obj: blobs[0], From: 1 + g.r.intn(g.nrepos()), A: 5})
			g.add(Op{K: "sess", Act: "delete", Sess: s, Obj: blobs[0]})
		case 9:
			// reserved names (the directory store refuses them, the memory store may accept them)
			name := reserved[g.r.intn(len(reserved))]
			g.add(Op{K: "raw", Raw: &RawReq{Method: g.r.str("GET", "HEAD"), Path: "/v2/" + name + "/" + g.r.str("tags/list", "blobs/"+digestOf("sha256", []byte("x")), "manifests/latest")}, S: "reserved"})
		case 10:
			g.add(Op{K: "del", Mode: g.r.str("tag", "man", "blob"), Repo: repo, Obj: g.r.pick(img, art, blobs[0]), Tag: "shared"})
		case 11:
			g.add(Op{K: "refs", Repo: repo, Obj: img})
		case 12:
			g.add(Op{K: "check"})
		case 13:
			g.add(Op{K: "gc", Repo: g.r.pick(-1, repo)})
		default:
			g.add(g.readOp(repo))
		}
	}
	return g.finish(prop, "upload-201", "mount-201", "mono-201")
}

func filepathBase(s string) string { return path.Base(s) }

var _ = os.Stat

// opStoreAPI (C14): the mutating calls of the store interface itself, on a read-only store. Every one of them is refused,
// and refused means nothing happened: what the API serves afterwards is what it served before (the handlers have guards
// of their own in front of the store, so only these calls tell whether the store keeps its promise by itself).
func (w *World) opStoreAPI(op Op) {
	if w.closed || !w.k.readOnly() || w.srv == nil || w.srv.store == nil {
		return
	}
	name := w.repoName(op.Repo)
	body := []byte("pushed through the store interface")
	dig := digest.FromBytes(body)
	w.m.usedTags["viastore"] = true
	w.m.usedDigests[dig.String()] = true
	pre := w.observe(name)
	repo, err := w.srv.store.RepoGet(context.Background(), name)
	if err != nil {
		return
	}
	idx, _ := repo.IndexGet()
	var calls []string
	refused := func(what string, err error) {
		calls = append(calls, what)
		if err == nil {
			w.x.viol([]string{"C14"}, "ro.store-api", what+" succeeded", fmt.Sprintf("%s on repository %s of a read-only %s store returned no error", what, name, w.k.Store))
		}
	}
	r := newRng(uint64(op.A) + 1)
	if n := len(idx.Manifests); n > 0 {
		d := idx.Manifests[r.intn(n)]
		refused("IndexRemove", repo.IndexRemove(d))
		// an entry for other content under a tag that exists
		if d.Annotations[types.AnnotRefName] != "" && n > 1 {
			o := idx.Manifests[(r.intn(n-1)+1+indexOf(idx.Manifests, d))%n]
			o.Annotations = map[string]string{types.AnnotRefName: d.Annotations[types.AnnotRefName]}
			refused("IndexInsert (tag move)", repo.IndexInsert(o))
		}
		refused("BlobDelete", repo.BlobDelete(d.Digest))
	}
	refused("IndexInsert (new tag)", repo.IndexInsert(types.Descriptor{MediaType: mtOCIManifest, Digest: dig, Size: int64(len(body)), Annotations: map[string]string{types.AnnotRefName: "viastore"}}))
	bc, _, err := repo.BlobCreate(store.BlobWithDigest(dig))
	refused("BlobCreate", err)
	if err == nil && bc != nil {
		_, _ = bc.Write(body)
		_ = bc.Close()
	}
	repo.Done()
	w.compareObs(name, pre, []string{"C14"}, "ro.store-api", strings.Join(calls, ", "))
	w.x.out.probe("store-api-on-read-only")
}

func indexOf(l []types.Descriptor, d types.Descriptor) int {
	for i := range l {
		if l[i].Digest == d.Digest && l[i].Annotations[types.AnnotRefName] == d.Annotations[types.AnnotRefName] {
			return i
		}
	}
	return 0
}
