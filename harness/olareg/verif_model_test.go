//go:build go1.25

package olareg

// Reference model of the registry: written from the OCI distribution specification and the
// property statements; shares no code with olareg (own JSON parse, own digest computation).

import (
	"bytes"
	"encoding/json"
	"fmt"
	"hash/fnv"
	"regexp"
	"sort"
	"strconv"
	"strings"
	"time"
)

var (
	reTag    = regexp.MustCompile(`^[a-zA-Z0-9_][a-zA-Z0-9._-]{0,127}$`)
	reRepoEl = `[a-z0-9]+(?:(?:\.|_|__|-+)[a-z0-9]+)*`
	reRepo   = regexp.MustCompile(`^` + reRepoEl + `(?:/` + reRepoEl + `)*$`)
	reDigest = regexp.MustCompile(`^(sha256:[a-f0-9]{64}|sha384:[a-f0-9]{96}|sha512:[a-f0-9]{128})$`)
	ociCodes = map[string]bool{"BLOB_UNKNOWN": true, "BLOB_UPLOAD_INVALID": true, "BLOB_UPLOAD_UNKNOWN": true, "DIGEST_INVALID": true,
		"MANIFEST_BLOB_UNKNOWN": true, "MANIFEST_INVALID": true, "MANIFEST_UNKNOWN": true, "NAME_INVALID": true, "NAME_UNKNOWN": true,
		"SIZE_INVALID": true, "UNAUTHORIZED": true, "DENIED": true, "UNSUPPORTED": true, "TOOMANYREQUESTS": true}
)

func validDigest(d string) bool { return reDigest.MatchString(d) }

type MBlob struct {
	data      []byte
	born      time.Time // earliest moment any of its bytes may have been written
	acked     time.Time // when the push was acknowledged
	maybeGone bool      // a collection may legitimately have removed it
}

type MMan struct {
	data      []byte
	mts       map[string]bool // every media type it was pushed with (a re-push may or may not replace the recorded type)
	untyped   bool            // the last push carried no type at all (mt is then one of two equally good readings)
	mt        string
	view      manView
	born      time.Time
	acked     time.Time
	maybeGone bool
}

type MSess struct {
	idx       int
	repo      string
	id        string
	loc       string // latest Location (path?query) returned by the server
	data      []byte
	open      bool
	created   time.Time
	lastUse   time.Time
	lastData  time.Time // when the last request that carried accepted bytes was sent (the stored blob is at least that young)
	algo      string // digest-algorithm requested at creation ("" = default)
	expect    string // digest announced at creation via mount= (no from)
	maybeGone bool
	endedHow  string
	tainted   bool
}

type MRepo struct {
	name  string
	blobs map[string]*MBlob
	mans  map[string]*MMan
	tags  map[string]string
	// digests explicitly deleted through the blob endpoint while still referenced as manifests
	blobDeleted map[string]bool
	// why a present manifest might be affected by a known class of defect (for signatures only)
	orphans map[string]string
	// subjects whose referrers response a collection may have dropped by policy although artifacts remain
	respLost map[string]bool
	// deleted manifests that an index listed as a child when they were deleted, or when the index was: the
	// server may keep serving them from its in-memory child list (same family as orphans, for absent manifests)
	ghosts map[string]bool
	// subject -> artifacts whose manifest was deleted after their blob had been removed through the blob endpoint:
	// the server could not read the subject any more and may keep listing them (known defect, signatures only)
	staleRef map[string]map[string]bool
}

type Model struct {
	k     Knobs
	repos map[string]*MRepo
	sess  []*MSess
	// every digest/tag/repo string the history used, for whole-state observation
	usedDigests map[string]bool
	usedTags    map[string]bool
	collections int
	reqStart    time.Time // when the request whose effect is being applied was sent
}

func newModel(k Knobs) *Model {
	return &Model{k: k, repos: map[string]*MRepo{}, usedDigests: map[string]bool{}, usedTags: map[string]bool{}}
}

func (m *Model) repo(name string) *MRepo {
	r, ok := m.repos[name]
	if !ok {
		r = &MRepo{name: name, blobs: map[string]*MBlob{}, mans: map[string]*MMan{}, tags: map[string]string{}, blobDeleted: map[string]bool{}, orphans: map[string]string{}, respLost: map[string]bool{}, ghosts: map[string]bool{}, staleRef: map[string]map[string]bool{}}
		m.repos[name] = r
	}
	return r
}

func (m *Model) hasRepo(name string) bool { _, ok := m.repos[name]; return ok }

func (m *Model) clone() *Model {
	c := newModel(m.k)
	c.collections = m.collections
	for d := range m.usedDigests {
		c.usedDigests[d] = true
	}
	for t := range m.usedTags {
		c.usedTags[t] = true
	}
	for n, r := range m.repos {
		cr := c.repo(n)
		for d, b := range r.blobs {
			bb := *b
			cr.blobs[d] = &bb
		}
		for d, x := range r.mans {
			xx := *x
			xx.mts = map[string]bool{}
			for k := range x.mts {
				xx.mts[k] = true
			}
			cr.mans[d] = &xx
		}
		for t, d := range r.tags {
			cr.tags[t] = d
		}
		for d := range r.blobDeleted {
			cr.blobDeleted[d] = true
		}
		for d, v := range r.orphans {
			cr.orphans[d] = v
		}
		for d := range r.ghosts {
			cr.ghosts[d] = true
		}
		for sj, m := range r.staleRef {
			cr.staleRef[sj] = map[string]bool{}
			for d := range m {
				cr.staleRef[sj][d] = true
			}
		}
		for d := range r.respLost {
			cr.respLost[d] = true
		}
	}
	for _, s := range m.sess {
		ss := *s
		c.sess = append(c.sess, &ss)
	}
	return c
}

// ---------------------------------------------------------------------------------------------
// manifests

type manVerdict struct {
	accept bool   // model says the push must be acknowledged
	either bool   // both outcomes are legitimate (gray zone: collectable references etc.)
	reason string // why it must be refused
	digest string
	mt     string
	tag    string
	view   manView
	loose  string // a looser inconsistency that is logged, not flagged
	mtAlt  string // pushed without any type (no Content-Type, no mediaType field): the other family's type of the same shape is as good
}

func normCT(ct string) string {
	ct, _, _ = strings.Cut(ct, ";")
	return strings.TrimSpace(strings.ToLower(ct))
}

func supportedMT(mt string) bool {
	switch mt {
	case mtOCIManifest, mtOCIIndex, mtDockManifest, mtDockList:
		return true
	}
	return false
}

func isIndexMT(mt string) bool { return mt == mtOCIIndex || mt == mtDockList }

// judgeManifestPut decides a manifest push. ref is the last path element, ctype the raw Content-Type,
// qdigest the ?digest= parameter, knownLen whether Content-Length was announced.
func (m *Model) judgeManifestPut(repo, ref, ctype, qdigest string, body []byte, knownLen bool) manVerdict {
	v := manVerdict{}
	r := m.repo(repo)
	ct := normCT(ctype)
	if ct != "" && !supportedMT(ct) {
		v.reason = "unsupported content type"
		return v
	}
	if int64(len(body)) > m.k.manifestLimit() {
		v.reason = "larger than the manifest size limit"
		return v
	}
	if qdigest != "" && !validDigest(qdigest) {
		v.reason = "unparsable ?digest="
		return v
	}
	expect := ""
	if reTag.MatchString(ref) {
		v.tag = ref
		expect = qdigest
	} else if validDigest(ref) {
		expect = ref
		if qdigest != "" && qdigest != ref {
			// ?digest= disagrees with a digest reference: not covered by the property text
			if digestOf(algoOf(qdigest), body) != qdigest {
				v.either = true
			}
		}
	} else {
		v.reason = "reference is neither a tag nor a digest"
		return v
	}
	algo := "sha256"
	if expect != "" {
		algo = algoOf(expect)
	}
	v.digest = digestOf(algo, body)
	if expect != "" && v.digest != expect {
		v.reason = "digest mismatch"
		return v
	}
	view := parseManifest(body)
	v.view = view
	if !view.ok {
		v.reason = "body does not parse"
		return v
	}
	mt := ct
	if mt == "" {
		mt = view.mt
		if mt == "" {
			switch view.shape {
			case "index":
				mt = mtOCIIndex
			case "image":
				mt = mtOCIManifest
			}
		}
	}
	v.mt = mt
	if ct == "" && view.mt == "" {
		// nothing was "pushed" as the type: which family the registry settles on (it looks at the types of config and
		// children) is its business, the shape is not
		switch mt {
		case mtOCIIndex:
			v.mtAlt = mtDockList
		case mtOCIManifest:
			v.mtAlt = mtDockManifest
		}
	}
	if !supportedMT(mt) {
		v.reason = "unsupported or undetectable media type"
		if ct == "" && view.mt == "" {
			// detection of an untyped body is heuristic: an odd body may be refused or taken as an image
			v.either = view.shape != ""
		}
		return v
	}
	// fields that matter for the declared kind must have the right JSON types
	relevant := []string{"schemaVersion", "mediaType", "artifactType", "subject", "annotations"}
	if isIndexMT(mt) {
		relevant = append(relevant, "manifests")
	} else {
		relevant = append(relevant, "config", "layers")
	}
	for _, f := range relevant {
		if view.fieldErr[f] {
			v.reason = "body does not parse"
			return v
		}
	}
	// consistency, taken narrowly: an index type needs an index-shaped body and vice versa
	if isIndexMT(mt) && view.shape == "image" {
		v.reason = "index media type with an image-shaped body"
		return v
	}
	if !isIndexMT(mt) && view.shape == "index" {
		v.reason = "image media type with an index-shaped body"
		return v
	}
	if view.shape == "" || view.shape == "both" || len(view.fieldErr) > 0 {
		// ambiguous bodies: either outcome
		v.either = true
	}
	if view.mt != "" && view.mt != mt {
		v.loose = "mediaType field differs from Content-Type"
	}
	v.view = view.under(mt)
	for _, d := range v.view.refs {
		b, ok := r.blobs[d]
		if !ok {
			v.reason = "references content missing from this repository: " + d
			v.either = false
			return v
		}
		if b.maybeGone || r.causeOf(d) != "" {
			v.either = true
		}
	}
	v.accept = true
	return v
}

// applyManifestPut records an acknowledged push.
func (m *Model) applyManifestPut(repo string, v manVerdict, body []byte, now time.Time) {
	r := m.repo(repo)
	m.usedDigests[v.digest] = true
	// "born" is the earliest moment the content may have been written: when the request was sent (a slow or stalled handler
	// acknowledges long after it stored the bytes)
	born := now
	if !m.reqStart.IsZero() && m.reqStart.Before(now) {
		born = m.reqStart
	}
	if b, ok := r.blobs[v.digest]; !ok || b.maybeGone {
		if !ok {
			r.blobs[v.digest] = &MBlob{data: body, born: born, acked: now}
		} else {
			b.maybeGone = false
		}
	}
	// (the manifest's own grace period starts over below; the blob's does not: once the manifest is deleted nobody relies
	// on it. The server may well have touched the blob, though: it is not "old" for the must-remove set)
	r.blobs[v.digest].acked = now
	delete(r.blobDeleted, v.digest)
	if x, ok := r.mans[v.digest]; ok {
		// a push that was acknowledged again counts as a push: the grace period starts over
		if born.After(x.born) {
			x.born = born
		}
		x.acked = now
		x.maybeGone = false
		x.mt = v.mt
		x.mts[v.mt] = true
	} else {
		r.mans[v.digest] = &MMan{data: body, mt: v.mt, mts: map[string]bool{v.mt: true}, view: v.view, born: r.blobs[v.digest].born, acked: now}
	}
	r.mans[v.digest].untyped = v.mtAlt != ""
	if v.mtAlt != "" {
		r.mans[v.digest].mts[v.mtAlt] = true
	}
	delete(r.orphans, v.digest)
	delete(r.ghosts, v.digest)
	for _, m := range r.staleRef {
		delete(m, v.digest)
	}
	// an artifact pushed for a subject whose manifest was deleted (its blob is still there) joins the known family at once
	if s := v.view.subject; s != "" {
		if _, isMan := r.mans[s]; !isMan {
			if _, hasBlob := r.blobs[s]; hasBlob {
				r.orphans[v.digest] = "referrer of a deleted subject"
			}
		}
	}
	if v.tag != "" {
		r.tags[v.tag] = v.digest
		m.usedTags[v.tag] = true
	}
}

// referrers returns the digests of present manifests whose subject is s (sorted).
func (r *MRepo) referrers(s string) (must, may []string) {
	for d, x := range r.mans {
		if x.view.subject == s {
			if x.maybeGone {
				may = append(may, d)
			} else {
				must = append(must, d)
			}
		}
	}
	sort.Strings(must)
	sort.Strings(may)
	return
}

func (x *MMan) artifactType() string {
	if x.view.at != "" {
		return x.view.at
	}
	if x.view.shape == "image" || (!isIndexMT(x.mt) && x.view.hasCfg) {
		return x.view.configMT
	}
	return ""
}

// isChildOfPresent reports whether d is listed as a child by some present index manifest, directly or through nested
// indexes - also deleted ones whose blob is still there: the server walks the files, not the API history.
func (r *MRepo) isChildOfPresent(d string) bool {
	seen := map[string]bool{}
	var stack []string
	for _, x := range r.mans {
		stack = append(stack, x.view.children...)
	}
	for len(stack) > 0 {
		c := stack[len(stack)-1]
		stack = stack[:len(stack)-1]
		if c == d {
			return true
		}
		if seen[c] {
			continue
		}
		seen[c] = true
		if x, ok := r.mans[c]; ok {
			stack = append(stack, x.view.children...)
		} else if b, ok := r.blobs[c]; ok {
			if v := parseManifest(b.data); v.ok && v.shape == "index" {
				stack = append(stack, v.children...)
			}
		}
	}
	return false
}

// ---------------------------------------------------------------------------------------------
// garbage collection: must-keep closure (C05) and must-remove set (C06)

// Roles in the must-keep closure.
const (
	keepBlob = 1 // the bytes must stay retrievable as a blob
	keepMan  = 2 // retained as a manifest: it must stay served as one, and what it names is retained too
)

// mustKeep computes what no collection may remove, as the property words it: tagged manifests; every manifest
// while untagged collection is off; everything younger than the grace period; what a retained manifest names
// (children of an index in the manifest role, config and layers as blobs); referrers of retained manifests.
// A digest that is retained only as config/layer of an image is an opaque blob: it is not expanded even if the
// same bytes were also pushed as a manifest (that reading would demand more than a registry can be held to).
// "young" uses born (the earliest possible write time) plus a tolerance, so the model can only err towards
// demanding less.
func (m *Model) mustKeep(r *MRepo, now time.Time) map[string]int {
	keep := map[string]int{}
	grace := m.k.grace()
	young := func(born time.Time) bool {
		if grace < 0 {
			return false
		}
		return now.Sub(born) < grace-gcTolerance(m.k)
	}
	var work []string
	addM := func(d string) {
		if _, ok := r.mans[d]; !ok {
			if keep[d] < keepBlob {
				keep[d] = keepBlob
			}
			return
		}
		if keep[d] < keepMan {
			keep[d] = keepMan
			work = append(work, d)
		}
	}
	addB := func(d string) {
		if keep[d] < keepBlob {
			keep[d] = keepBlob
		}
	}
	for _, d := range r.tags {
		addM(d)
	}
	for d, x := range r.mans {
		if !m.k.untagged() || young(x.born) {
			addM(d)
		}
	}
	for d, b := range r.blobs {
		if young(b.born) {
			addB(d)
		}
	}
	for len(work) > 0 {
		d := work[len(work)-1]
		work = work[:len(work)-1]
		x := r.mans[d]
		if r.blobDeleted[d] {
			// its content was removed through the blob endpoint: nobody can tell what it names any more, and the
			// client that deleted it cannot rely on that either
			continue
		}
		if isIndexMT(x.mt) {
			for _, c := range x.view.refs {
				addM(c)
			}
		} else {
			for _, c := range x.view.refs {
				addB(c)
			}
		}
		if !m.k.referrerOn() {
			continue // with the referrers API switched off a manifest that names a subject is a manifest like any other
		}
		for ad, a := range r.mans {
			if a.view.subject == d {
				addM(ad)
			}
		}
	}
	return keep
}

func gcTolerance(k Knobs) time.Duration {
	t := 250 * time.Millisecond
	if f := k.freq(); f > 0 {
		t += f
	}
	return t
}

// collectionOpportunity marks everything outside the must-keep closure as possibly collected.
func (m *Model) collectionOpportunity(now time.Time) {
	if m.k.readOnly() {
		return
	}
	m.collections++
	for _, r := range m.repos {
		keep := m.mustKeep(r, now)
		// the referrers policies drop a referrers *response* in situations in which the artifacts themselves remain
		// (tagged, or untagged collection off): the listing of that subject is then lost for good, and untagged artifacts
		// (which live only in the child list of the response) are orphaned. Design-level, recorded as a known family.
		tagged := map[string]bool{}
		for _, d := range r.tags {
			tagged[d] = true
		}
		for ad, a := range r.mans {
			s := a.view.subject
			if s == "" {
				continue
			}
			_, subjBlob := r.blobs[s]
			// (a subject of a known family is present per the API history, but the server may not have it in its index)
			subjKept := keep[s] == keepMan && r.causeOf(s) == ""
			w, dg := m.k.refWithSubj(), m.k.refDangling()
			drop := false
			switch {
			case w && subjBlob:
				drop = !subjKept
			case !dg:
				drop = false
			case subjBlob:
				drop = !subjKept
			default:
				drop = m.k.untagged()
			}
			if drop {
				r.respLost[s] = true
				if !tagged[ad] {
					if _, ok := r.orphans[ad]; !ok {
						r.orphans[ad] = "referrer whose referrers response was collected by policy"
					}
				}
			}
		}
		for d, b := range r.blobs {
			if keep[d] == 0 {
				b.maybeGone = true
			}
		}
		for d, x := range r.mans {
			if keep[d] < keepMan {
				x.maybeGone = true
			}
		}
		// a tag whose manifest may be gone cannot exist: tags are always in must-keep
	}
}

// mustRemove computes the digests a completed pass must have removed, under the most generous
// reading of "retained": everything that could be kept for any reason is excluded.
// Only meaningful once the grace period has elapsed for the item (acked + grace + tolerance < now) or grace is disabled.
func (m *Model) mustRemove(r *MRepo, now time.Time) (blobs, mans map[string]bool) {
	blobs, mans = map[string]bool{}, map[string]bool{}
	grace := m.k.grace()
	old := func(acked time.Time) bool {
		if grace < 0 {
			return true
		}
		return now.Sub(acked) > grace+gcTolerance(m.k)
	}
	// generous keep set: tagged, all manifests when untagged is off, everything not old, closure over
	// references (any digest whose bytes parse as a manifest keeps what it names), referrers of anything kept.
	keep := map[string]bool{}
	var work []string
	add := func(d string) {
		if !keep[d] {
			keep[d] = true
			work = append(work, d)
		}
	}
	drain := func() {
		for len(work) > 0 {
			d := work[len(work)-1]
			work = work[:len(work)-1]
			if x, ok := r.mans[d]; ok {
				for _, c := range x.view.refs {
					add(c)
				}
			} else if b, ok := r.blobs[d]; ok {
				if v := parseManifest(b.data); v.ok {
					for _, c := range v.refs {
						add(c)
					}
				}
			}
			for ad, a := range r.mans {
				if a.view.subject == d {
					add(ad)
				}
			}
		}
	}
	for _, d := range r.tags {
		add(d)
	}
	for d, x := range r.mans {
		if !m.k.untagged() || !old(x.acked) {
			add(d)
		}
	}
	for d, b := range r.blobs {
		if !old(b.acked) {
			add(d)
		}
	}
	drain()
	// referrers whose subject is not kept: removal is demanded only under the policy rows whose documented
	// meaning is unambiguous; in every other case the referrer counts as retained
	for changed := true; changed; {
		changed = false
		for _, ad := range sortedKeys(r.mans) {
			a := r.mans[ad]
			if keep[ad] || a.view.subject == "" {
				continue
			}
			sb, subjPresent := r.blobs[a.view.subject]
			demand := (!subjPresent && m.k.refDangling()) || (subjPresent && m.k.refWithSubj())
			if subjPresent && sb.maybeGone {
				// an earlier collection may or may not have taken the subject: which policy row applies is not known
				demand = m.k.refDangling() && m.k.refWithSubj()
			}
			if !demand {
				add(ad)
				drain()
				changed = true
			}
		}
	}
	for d := range r.blobs {
		if !keep[d] {
			blobs[d] = true
		}
	}
	for d := range r.mans {
		if !keep[d] {
			mans[d] = true
		}
	}
	return
}

// ---------------------------------------------------------------------------------------------
// ranges (RFC 7233 single range)

type rangeVerdict struct {
	kind       string // "full" (ignore header), "partial", "unsat", "any"
	start, end int64  // inclusive
}

func judgeRange(hdr string, size int64) rangeVerdict {
	if hdr == "" {
		return rangeVerdict{kind: "full"}
	}
	if !strings.HasPrefix(hdr, "bytes=") {
		return rangeVerdict{kind: "any"}
	}
	spec := strings.TrimPrefix(hdr, "bytes=")
	if strings.Contains(spec, ",") {
		return rangeVerdict{kind: "any"}
	}
	spec = strings.TrimSpace(spec)
	i := strings.IndexByte(spec, '-')
	if i < 0 {
		return rangeVerdict{kind: "any"}
	}
	a, b := strings.TrimSpace(spec[:i]), strings.TrimSpace(spec[i+1:])
	if size == 0 {
		return rangeVerdict{kind: "any"}
	}
	if a == "" {
		n, err := strconv.ParseInt(b, 10, 64)
		if err != nil || n < 0 || b == "" {
			return rangeVerdict{kind: "any"}
		}
		if n == 0 {
			return rangeVerdict{kind: "any"}
		}
		if n > size {
			n = size
		}
		return rangeVerdict{kind: "partial", start: size - n, end: size - 1}
	}
	s, err := strconv.ParseInt(a, 10, 64)
	if err != nil || s < 0 {
		return rangeVerdict{kind: "any"}
	}
	if s >= size {
		return rangeVerdict{kind: "unsat"}
	}
	if b == "" {
		return rangeVerdict{kind: "partial", start: s, end: size - 1}
	}
	e, err := strconv.ParseInt(b, 10, 64)
	if err != nil || e < s {
		return rangeVerdict{kind: "any"}
	}
	if e >= size {
		e = size - 1
	}
	return rangeVerdict{kind: "partial", start: s, end: e}
}

// ---------------------------------------------------------------------------------------------
// misc helpers

func parseErrorBody(b []byte) (codes []string, ok bool) {
	var doc struct {
		Errors []struct {
			Code    *string          `json:"code"`
			Message *string          `json:"message"`
			Detail  *json.RawMessage `json:"detail"`
		} `json:"errors"`
	}
	dec := json.NewDecoder(bytes.NewReader(b))
	if err := dec.Decode(&doc); err != nil || doc.Errors == nil {
		return nil, false
	}
	for _, e := range doc.Errors {
		if e.Code == nil {
			return nil, false
		}
		codes = append(codes, *e.Code)
	}
	return codes, true
}

// parseLinkNext extracts the target of a Link: <...>; rel=next header.
func parseLinkNext(h string) (string, bool) {
	if h == "" {
		return "", false
	}
	i, j := strings.IndexByte(h, '<'), strings.IndexByte(h, '>')
	if i < 0 || j < i {
		return "", false
	}
	rest := strings.ReplaceAll(strings.ToLower(h[j+1:]), " ", "")
	if !strings.Contains(rest, `rel=next`) && !strings.Contains(rest, `rel="next"`) {
		return "", false
	}
	return h[i+1 : j], true
}

func (m *Model) stateHash() uint64 {
	h := fnv.New64a()
	for _, n := range sortedKeys(m.repos) {
		r := m.repos[n]
		fmt.Fprintf(h, "R%s|", n)
		for _, d := range sortedKeys(r.blobs) {
			fmt.Fprintf(h, "b%s%v|", d[7:15], r.blobs[d].maybeGone)
		}
		for _, d := range sortedKeys(r.mans) {
			fmt.Fprintf(h, "m%s%v|", d[7:15], r.mans[d].maybeGone)
		}
		for _, t := range sortedKeys(r.tags) {
			fmt.Fprintf(h, "t%s=%s|", t, r.tags[t][7:15])
		}
	}
	for _, s := range m.sess {
		fmt.Fprintf(h, "s%d:%v:%d|", s.idx, s.open, len(s.data))
	}
	return h.Sum64()
}

// shapeHash abstracts a model state to its shape (counts), used for fingerprints.
func (m *Model) shapeHash() uint64 {
	h := fnv.New64a()
	for _, n := range sortedKeys(m.repos) {
		r := m.repos[n]
		nsub := 0
		for _, x := range r.mans {
			if x.view.subject != "" {
				nsub++
			}
		}
		fmt.Fprintf(h, "%d/%d/%d/%d|", len(r.blobs), len(r.mans), len(r.tags), nsub)
	}
	open := 0
	for _, s := range m.sess {
		if s.open {
			open++
		}
	}
	fmt.Fprintf(h, "s%d", open)
	return h.Sum64()
}

// refresh moves the earliest possible write time of the blob forward: it was uploaded (again) at t.
func (b *MBlob) refresh(t time.Time) {
	if t.After(b.born) {
		b.born = t
	}
}

// causeOf names the known family of defect that may explain why d is affected: d itself, or a manifest that
// retains d, was moved out of the index as a child / referrer and its parent was then deleted.
func (r *MRepo) causeOf(d string) string {
	roots := r.familyRoots()
	if why := roots[d]; why != "" {
		return why
	}
	for _, root := range sortedKeys(roots) {
		if r.reaches(root, d) {
			return roots[root]
		}
	}
	return ""
}

// familyRoots lists the manifests that belong to a known design-level family: recorded orphans, plus untagged
// artifacts whose referrers response a collection may have dropped by policy.
func (r *MRepo) familyRoots() map[string]string {
	roots := map[string]string{}
	for d, why := range r.orphans {
		roots[d] = why
	}
	if len(r.respLost) > 0 {
		tagged := map[string]bool{}
		for _, d := range r.tags {
			tagged[d] = true
		}
		for d, x := range r.mans {
			if x.view.subject != "" && r.respLost[x.view.subject] && !tagged[d] {
				if _, ok := roots[d]; !ok {
					roots[d] = "referrer whose referrers response was collected by policy"
				}
			}
		}
	}
	return roots
}

func (r *MRepo) reaches(root, d string) bool {
	seen := map[string]bool{}
	stack := []string{root}
	for len(stack) > 0 {
		cur := stack[len(stack)-1]
		stack = stack[:len(stack)-1]
		if seen[cur] {
			continue
		}
		seen[cur] = true
		if cur == d {
			return true
		}
		if x, ok := r.mans[cur]; ok {
			stack = append(stack, x.view.refs...)
			for ad, a := range r.mans {
				if a.view.subject == cur {
					stack = append(stack, ad)
				}
			}
		}
	}
	return false
}

// resyncOrphans stops demanding anything of content that hangs below an orphaned manifest.
func (r *MRepo) resyncOrphans() {
	for root := range r.familyRoots() {
		for d, b := range r.blobs {
			if r.reaches(root, d) {
				b.maybeGone = true
			}
		}
		for d, x := range r.mans {
			if r.reaches(root, d) {
				x.maybeGone = true
			}
		}
	}
}
