//go:build go1.25

package olareg

// Manifest push / read / delete, tag listing, referrers: client side, model transitions, oracles
// (C01–C04, C07, C14).

import (
	"github.com/olareg/olareg/internal/simrt"
	"bytes"
	"encoding/json"
	"fmt"
	"net/http"
	"net/url"
	"sort"
	"strconv"
	"strings"
	"time"
)

func (w *World) refusedBySwitch(r *Resp, what string) bool {
	if !r.is4xx() {
		w.x.viol([]string{"C14", "C19"}, "switch.not-refused", what, fmt.Sprintf("%s answered %d although the configuration disables it (push=%v delete=%v blobdelete=%v readonly=%v)", what, r.Code, w.k.pushOn(), w.k.deleteOn(), w.k.blobDeleteOn(), w.k.readOnly()))
		return false
	}
	return true
}

// opManPush pushes manifest object op.Obj.
//
//	Tag: tag reference ("" = by digest with algorithm Algo); CT: "own" (declared type), "none", or a literal type;
//	QD: "" | "ok" | "bad" | "badfmt" (?digest=); Len: "unknown" sends without Content-Length; Decl: "wrong" pushes under another digest.
// manPushParams derives what a manifest push operation sends.
func (w *World) manPushParams(op Op) (repo, ref, ct, qd string, body []byte) {
	repo = w.repoName(op.Repo)
	o := w.obj(op.Obj)
	body = o.data
	ref = op.Tag
	if ref == "" {
		algo := op.Algo
		ref = o.digest(algo)
		switch op.Decl {
		case "wrong":
			ref = digestOf(algoOrDefault(algo), append([]byte("x"), body...))
		case "badfmt":
			ref = "sha256:beef"
		}
	}
	ct = op.CT
	switch ct {
	case "", "own":
		ct = o.mediaType()
		if o.Kind == "raw" || o.Kind == "blob" {
			ct = mtOCIManifest
		}
	case "none":
		ct = ""
	case "params":
		ct = o.mediaType() + "; charset=utf-8"
	case "upper":
		ct = strings.ToUpper(o.mediaType())
	}
	switch op.QD {
	case "ok":
		qd = o.digest(op.Algo2)
	case "bad":
		qd = digestOf(algoOrDefault(op.Algo2), append([]byte("y"), body...))
	case "badfmt":
		qd = "sha256:nothex"
	}
	return
}

func (w *World) opManPush(op Op) *Resp {
	repo, ref, ct, qd, body := w.manPushParams(op)
	q := url.Values{}
	if qd != "" {
		q.Set("digest", qd)
	}
	hdr := http.Header{}
	if ct != "" {
		hdr.Set("Content-Type", ct)
	}
	var pre *obs
	mr := w.m.repo(repo)
	verdict := w.m.judgeManifestPut(repo, ref, ct, qd, body, op.Len != "unknown")
	if verdict.digest != "" {
		w.m.usedDigests[verdict.digest] = true
	}
	w.m.usedDigests[digestOf("sha256", body)] = true
	if validDigest(ref) {
		w.m.usedDigests[ref] = true
	}
	if reTag.MatchString(ref) {
		w.m.usedTags[ref] = true
	}
	switchOff := !w.k.pushOn() || w.k.readOnly()
	needPre := (!verdict.accept || switchOff) && !w.quiet
	if needPre {
		pre = w.observe(repo)
	}
	var treePre map[string]fileInfo
	if needPre && w.root != "" && w.x.p.Prop == "C04" {
		treePre = scanTree(w.root)
	}
	w.m.reqStart = w.now()
	defer func() { w.m.reqStart = time.Time{} }()
	r := w.do(reqSpec{method: "PUT", path: "/v2/" + repo + "/manifests/" + ref, query: q.Encode(), hdr: hdr, body: body,
		unknownLen: op.Len == "unknown", repos: []string{repo}})
	if r.Panicked || w.quiet || w.faulted(r, repo) {
		return r
	}
	now := w.now()
	if switchOff {
		if w.refusedBySwitch(r, "PUT manifest") {
			w.compareObs(repo, pre, []string{"C14", "C19"}, "switch.state-changed", "PUT manifest")
		}
		return r
	}
	if r.is5xx() {
		w.x.stop = true
		return r
	}
	switch {
	case r.Code == 201:
		if !verdict.accept && !verdict.either {
			shape := verdict.reason
			if i := strings.Index(shape, ":"); i > 0 {
				shape = shape[:i]
			}
			props := []string{"C04"}
			if verdict.reason == "larger than the manifest size limit" {
				props = []string{"C02", "C04"}
			}
			if verdict.reason == "digest mismatch" {
				props = []string{"C01", "C04"}
			}
			w.x.viol(props, "manifest.accepted-invalid", shape, fmt.Sprintf("PUT %s/manifests/%s (Content-Type %q, %d bytes, known length %v) acknowledged although: %s", repo, ref, ct, len(body), op.Len != "unknown", verdict.reason))
			own := false
			for _, p := range props {
				own = own || p == w.x.p.Prop
			}
			if !own && strings.HasPrefix(verdict.reason, "references content missing") && verdict.view.ok && verdict.digest != "" {
				// the check of another property reports this. This run follows the server so that it can go on watching its own
				// property (what the accepted manifest is then served as)
				w.m.applyManifestPut(repo, verdict, body, w.now())
				w.x.resync()
				return r
			}
			w.x.stop = true
			return r
		}
		if !verdict.accept && verdict.either {
			// accepted in a gray zone: the model follows the server if the body is usable
			if !verdict.view.ok || !supportedMT(verdict.mt) {
				w.x.stop = true
				return r
			}
		}
		// acknowledged digest must be the digest of the bytes sent
		dh := r.H.Get("Docker-Content-Digest")
		if dh != verdict.digest {
			w.x.viol([]string{"C01", "C02"}, "manifest.ack-digest", "Docker-Content-Digest differs from digest of sent bytes", fmt.Sprintf("PUT %s/manifests/%s of %d bytes acknowledged with digest %s, sent bytes hash to %s", repo, ref, len(body), dh, verdict.digest))
			w.x.stop = true
			return r
		}
		if verdict.view.subject != "" && w.k.referrerOn() {
			if got := r.H.Get("OCI-Subject"); got != verdict.view.subject {
				w.x.viol([]string{"C07"}, "referrers.subject-header", "OCI-Subject", fmt.Sprintf("PUT of a manifest with subject %s answered OCI-Subject %q", verdict.view.subject, got))
			}
		}
		if !w.k.referrerOn() {
			// with the referrers API switched off a push is just a push: nothing announces a referrers entry
			if got := r.H.Get("OCI-Subject"); got != "" {
				w.x.viol([]string{"C14", "C19"}, "switch.referrer-off", "OCI-Subject sent", fmt.Sprintf("the referrers API is disabled, yet the PUT of a manifest with subject %s answered OCI-Subject %q", verdict.view.subject, got))
			}
		}
		for _, d := range verdict.view.refs {
			if b, ok := mr.blobs[d]; ok && b.maybeGone {
				b.maybeGone = false // the server just verified it
			}
		}
		w.m.applyManifestPut(repo, verdict, body, now)
		w.x.out.probe("manifest-201")
		if verdict.view.subject != "" {
			w.x.out.probe("artifact-201")
		}
	case r.is4xx():
		if verdict.accept && !verdict.either {
			w.x.viol([]string{"C04", "C02"}, "manifest.good-refused", strconv.Itoa(r.Code), fmt.Sprintf("PUT %s/manifests/%s (Content-Type %q, %d bytes) refused with %d %v although well-formed and complete", repo, ref, ct, len(body), r.Code, w.errCodes(r)))
			return r
		}
		w.x.out.probe("manifest-refused")
		w.compareObs(repo, pre, []string{"C04"}, "manifest.refusal-changed-state", verdictShape(verdict))
		if treePre != nil {
			if d := diffTrees(treePre, scanTree(w.root), false); len(d) > 0 {
				d = filterRepoInit(d, repo)
				if len(d) > 0 {
					sort.Strings(d)
					w.x.viol([]string{"C04"}, "manifest.refusal-changed-files", verdictShape(verdict), fmt.Sprintf("refused PUT %s/manifests/%s changed files: %v", repo, ref, d))
				}
			}
		}
	default:
		w.x.viol([]string{"C04"}, "manifest.refusal-status", strconv.Itoa(r.Code), fmt.Sprintf("PUT manifest answered %d", r.Code))
	}
	return r
}

func verdictShape(v manVerdict) string {
	s := v.reason
	if i := strings.Index(s, ":"); i > 0 {
		s = s[:i]
	}
	return s
}

// filterRepoInit drops the files a not-yet-created repository legitimately gains on first touch.
func filterRepoInit(d []string, repo string) []string {
	var out []string
	for _, e := range d {
		if !strings.HasPrefix(e, "created ") {
			out = append(out, e)
			continue
		}
		p := strings.TrimPrefix(e, "created ")
		ok := false
		// the repository directory and its parents, oci-layout, index.json, empty blobs/ and _uploads/
		for _, pre := range []string{repo, repo + "/oci-layout", repo + "/index.json", repo + "/_uploads", repo + "/blobs", repo + "/blobs/sha256", repo + "/blobs/sha512", repo + "/blobs/sha384"} {
			if p == pre {
				ok = true
			}
		}
		if strings.HasPrefix(repo, p+"/") {
			ok = true
		}
		if !ok {
			out = append(out, e)
		}
	}
	return out
}

func algoOrDefault(a string) string {
	if a == "" {
		return "sha256"
	}
	return a
}

func acceptHeader(mode, mt string) []string {
	switch mode {
	case "", "exact":
		return []string{mt}
	case "list":
		return []string{"application/json, " + mtOCIIndex + ", " + mtOCIManifest + ", " + mtDockManifest + ", " + mtDockList}
	case "multi":
		return []string{"text/plain", mtDockList, mtOCIIndex, mtOCIManifest, mtDockManifest}
	case "params":
		return []string{"application/xml;q=0.1, " + mt + ";q=0.9"}
	case "upper":
		return []string{strings.ToUpper(mt)}
	case "nospace":
		// one header line, no blank after the commas (RFC 9110 makes the whitespace optional)
		return []string{"application/json," + mt + ",text/plain"}
	case "all":
		return []string{mtOCIIndex, mtOCIManifest, mtDockManifest, mtDockList, "*/*"}
	case "none":
		return nil
	case "other":
		if isIndexMT(mt) {
			return []string{mtOCIManifest}
		}
		return []string{mtOCIIndex}
	}
	return []string{mt}
}

// checkContent verifies a 200/206/416 answer for content the model knows.
func (w *World) checkContent(r *Resp, what, path string, data []byte, wantDigest, wantMT, rangeHdr string, head bool, props []string) {
	w.checkContentM(r, what, path, data, wantDigest, map[string]bool{wantMT: true}, rangeHdr, head, props, "")
}

func (w *World) checkContentM(r *Resp, what, path string, data []byte, wantDigest string, wantMTs map[string]bool, rangeHdr string, head bool, props []string, note string) {
	wantMT := ""
	for k := range wantMTs {
		wantMT = k
	}
	rv := judgeRange(rangeHdr, int64(len(data)))
	bad := func(oracle, sig, msg string) {
		w.x.viol(props, oracle, what+" "+sig+note, fmt.Sprintf("%s %s: %s%s", r.method, path, msg, note))
		if note != "" && oracle == "readback.lost" {
			w.x.resync()
			w.resyncAll()
		}
	}
	switch rv.kind {
	case "full":
		if r.Code != 200 {
			bad("readback.lost", "status "+strconv.Itoa(r.Code), fmt.Sprintf("acknowledged content answered %d %v", r.Code, w.errCodes(r)))
			return
		}
	case "partial":
		if r.Code != 206 {
			bad("readback.range", "satisfiable range -> "+strconv.Itoa(r.Code), fmt.Sprintf("Range %q on %d bytes answered %d", rangeHdr, len(data), r.Code))
			return
		}
		want := data[rv.start : rv.end+1]
		if cr := r.H.Get("Content-Range"); cr != fmt.Sprintf("bytes %d-%d/%d", rv.start, rv.end, len(data)) {
			bad("readback.range", "Content-Range", fmt.Sprintf("Range %q on %d bytes: Content-Range %q", rangeHdr, len(data), cr))
		}
		if !head && !bytes.Equal(r.Body, want) {
			bad("readback.range", "slice", fmt.Sprintf("Range %q on %d bytes returned %d bytes that differ from the slice", rangeHdr, len(data), len(r.Body)))
		}
		return
	case "unsat":
		if r.Code != 416 {
			bad("readback.range", "unsatisfiable range -> "+strconv.Itoa(r.Code), fmt.Sprintf("Range %q on %d bytes answered %d", rangeHdr, len(data), r.Code))
		}
		return
	default:
		if r.Code != 200 && r.Code != 206 && r.Code != 416 {
			bad("readback.range", "odd range -> "+strconv.Itoa(r.Code), fmt.Sprintf("Range %q on %d bytes answered %d", rangeHdr, len(data), r.Code))
		}
		if r.Code != 200 {
			return
		}
	}
	if !head && !bytes.Equal(r.Body, data) {
		bad("readback.bytes", "body", fmt.Sprintf("returned %d bytes, pushed %d bytes; identical=%v", len(r.Body), len(data), false))
	}
	if cl := r.H.Get("Content-Length"); cl != strconv.Itoa(len(data)) {
		bad("readback.headers", "Content-Length", fmt.Sprintf("Content-Length %q for %d bytes", cl, len(data)))
	}
	if wantDigest != "" {
		if d := r.H.Get("Docker-Content-Digest"); d != wantDigest {
			bad("readback.headers", "Docker-Content-Digest", fmt.Sprintf("Docker-Content-Digest %q, want %s", d, wantDigest))
		}
	}
	if wantMT != "" && !wantMTs[""] {
		if ct := normCT(r.H.Get("Content-Type")); !wantMTs[ct] {
			bad("readback.headers", "Content-Type", fmt.Sprintf("Content-Type %q, pushed as %q", ct, wantMT))
		}
	}
}

// opGet reads a blob or manifest: What in Mode: "blob", "man" (by digest), "tag".
func (w *World) opGet(op Op) *Resp {
	repo := w.repoName(op.Repo)
	mr := w.m.repo(repo)
	method := "GET"
	if op.Head {
		method = "HEAD"
	}
	hdr := http.Header{}
	if op.Range != "" {
		hdr.Set("Range", op.Range)
	}
	switch op.Mode {
	case "blob":
		d := op.S
		if d == "" {
			d = w.obj(op.Obj).digest(op.Algo)
		}
		path := "/v2/" + repo + "/blobs/" + d
		r := w.do(reqSpec{method: method, path: path, hdr: hdr, repos: []string{repo}})
		if r.Panicked || w.quiet || w.faulted(r, repo) {
			return r
		}
		if !validDigest(d) {
			if r.Code != 400 && r.Code != 404 {
				w.x.viol([]string{"C15"}, "req.bad-digest-accepted", "GET blob", fmt.Sprintf("GET blob %q answered %d", d, r.Code))
			}
			return r
		}
		b, ok := mr.blobs[d]
		switch {
		case ok && !b.maybeGone:
			note := ""
			if why := mr.causeOf(d); why != "" {
				note = " [" + why + "]"
			}
			w.checkContentM(r, "blob", path, b.data, d, map[string]bool{"": true}, op.Range, op.Head, []string{"C02"}, note)
			w.x.out.probe("blob-read")
		case ok && b.maybeGone:
			if r.Code == 404 {
				break
			}
			w.checkContent(r, "blob", path, b.data, d, "", op.Range, op.Head, []string{"C02"})
		default:
			if r.Code != 404 && !r.is5xx() {
				if !w.knownElsewhere(repo, d, r) {
					w.x.viol([]string{"C16", "C02"}, "iso.visible-elsewhere", "blob", fmt.Sprintf("GET %s answered %d for a digest never pushed to %s", path, r.Code, repo))
				}
			} else if r.Code == 404 && method == "GET" && !hasCode(w.errCodes(r), "BLOB_UNKNOWN") {
				w.x.viol([]string{"C15"}, "req.error-code", "unknown blob: not BLOB_UNKNOWN", fmt.Sprintf("GET %s answered 404 with codes %v", path, w.errCodes(r)))
			}
		}
		return r
	case "man", "tag":
		ref := op.Tag
		var x *MMan
		var d string
		if op.Mode == "man" {
			d = op.S
			if d == "" {
				d = w.obj(op.Obj).digest(op.Algo)
			}
			ref = d
			x = mr.mans[d]
		} else {
			d = mr.tags[op.Tag]
			if d != "" {
				x = mr.mans[d]
			}
		}
		mt := mtOCIManifest
		if x != nil {
			mt = x.mt
		}
		acc := acceptHeader(op.Accept, mt)
		if x != nil && len(x.mts) > 1 && op.Accept != "none" && op.Accept != "other" {
			acc = nil
			for _, k := range sortedKeys(x.mts) {
				acc = append(acc, k)
			}
		}
		for _, a := range acc {
			hdr.Add("Accept", a)
		}
		note := ""
		if why := mr.causeOf(d); why != "" {
			note = " [" + why + "]"
		}
		path := "/v2/" + repo + "/manifests/" + ref
		r := w.do(reqSpec{method: method, path: path, hdr: hdr, repos: []string{repo}})
		if r.Panicked || w.quiet || w.faulted(r, repo) {
			return r
		}
		if op.Mode == "man" && !validDigest(d) {
			return r
		}
		accepts := op.Accept != "none" && op.Accept != "other"
		switch {
		case x != nil && mr.blobDeleted[d]:
			// content explicitly deleted through the blob endpoint: unreadable
			if r.Code == 200 {
				w.checkContent(r, "manifest", path, x.data, d, "", op.Range, op.Head, []string{"C02"})
			}
		case x != nil && !x.maybeGone && accepts:
			w.checkContentM(r, "manifest", path, x.data, d, x.mts, op.Range, op.Head, []string{"C02", "C03"}, note)
			w.x.out.probe("manifest-read")
			if op.Mode == "tag" {
				w.x.out.probe("tag-read")
			}
		case x != nil && (x.maybeGone || !accepts):
			if r.Code == 200 && accepts {
				w.checkContentM(r, "manifest", path, x.data, d, x.mts, op.Range, op.Head, []string{"C02"}, note)
			} else if r.Code == 200 && !accepts {
				// an index by tag may legitimately be answered with a matching child
			} else if r.Code != 404 && r.Code != 206 && r.Code != 416 && !r.is5xx() {
				w.x.viol([]string{"C02"}, "readback.lost", "manifest status "+strconv.Itoa(r.Code), fmt.Sprintf("%s %s answered %d", method, path, r.Code))
			}
		default:
			// not present per the model
			if op.Mode == "tag" {
				if r.Code == 200 {
					w.x.viol([]string{"C03"}, "tag.resolve", "absent tag resolves", fmt.Sprintf("%s %s answered 200 (%s) but the tag does not exist per the API history", method, path, r.H.Get("Docker-Content-Digest")))
				}
			} else if r.Code == 200 {
				// allowed only for a digest that is still listed as a child by a present index (re-derivable)
				// or whose delete the history did not ask for
				if mr.ghosts[d] && !mr.isChildOfPresent(d) {
					w.x.viol([]string{"C03"}, "manifest.resurrected", "by digest [child of a deleted index]", fmt.Sprintf("%s %s answered 200 but the manifest was deleted, and so was the index that listed it as a child", method, path))
					w.x.resync()
				} else if !(mr.isChildOfPresent(d) && mr.blobs[d] != nil) {
					if !w.knownElsewhere(repo, d, r) {
						w.x.viol([]string{"C03", "C16"}, "manifest.resurrected", "by digest", fmt.Sprintf("%s %s answered 200 but the manifest is not present per the API history", method, path))
					}
				}
			}
			if r.Code == 404 && method == "GET" && !hasCode(w.errCodes(r), "MANIFEST_UNKNOWN", "MANIFEST_BLOB_UNKNOWN", "NAME_UNKNOWN") {
				w.x.viol([]string{"C15"}, "req.error-code", "unknown manifest: code", fmt.Sprintf("GET %s answered 404 with codes %v", path, w.errCodes(r)))
			}
		}
		return r
	}
	return nil
}

// knownElsewhere: for pre-seeded trees the model may not know content; overridden by profiles.
func (w *World) knownElsewhere(repo, d string, r *Resp) bool {
	if f, ok := w.x.extra["preseeded"]; ok {
		if m, ok := f.(map[string]bool); ok && m[repo+"@"+d] {
			return true
		}
	}
	return false
}

// opDelete: Mode "tag", "man" (by digest), "blob".
func (w *World) opDelete(op Op) *Resp {
	repo := w.repoName(op.Repo)
	mr := w.m.repo(repo)
	switch op.Mode {
	case "blob":
		d := op.S
		if d == "" {
			d = w.obj(op.Obj).digest(op.Algo)
		}
		var pre *obs
		off := !w.k.blobDeleteOn() || w.k.readOnly()
		if off && !w.quiet {
			pre = w.observe(repo)
		}
		r := w.do(reqSpec{method: "DELETE", path: "/v2/" + repo + "/blobs/" + d, repos: []string{repo}})
		if r.Panicked || w.quiet || w.faulted(r, repo) {
			return r
		}
		if off {
			if w.refusedBySwitch(r, "DELETE blob") {
				w.compareObs(repo, pre, []string{"C14", "C19"}, "switch.state-changed", "DELETE blob")
			}
			return r
		}
		if !validDigest(d) {
			return r
		}
		b, ok := mr.blobs[d]
		switch {
		case ok && !b.maybeGone:
			if r.Code != 202 {
				w.x.viol([]string{"C03"}, "delete.status", "blob present -> "+strconv.Itoa(r.Code), fmt.Sprintf("DELETE of present blob %s answered %d", d, r.Code))
				return r
			}
			delete(mr.blobs, d)
			if _, isMan := mr.mans[d]; isMan {
				mr.blobDeleted[d] = true
				w.orphanDependants(mr, d)
			}
		case ok:
			if r.Code == 202 || r.Code == 404 {
				delete(mr.blobs, d)
				if _, isMan := mr.mans[d]; isMan {
					mr.blobDeleted[d] = true
					w.orphanDependants(mr, d)
				}
			}
		default:
			// the status of deleting a blob the repository never held is not claimed by any property
		}
		return r
	case "tag", "man":
		ref := op.Tag
		d := ""
		if op.Mode == "man" {
			d = op.S
			if d == "" {
				d = w.obj(op.Obj).digest(op.Algo)
			}
			ref = d
		}
		var pre *obs
		off := !w.k.deleteOn() || w.k.readOnly()
		if off && !w.quiet {
			pre = w.observe(repo)
		}
		r := w.do(reqSpec{method: "DELETE", path: "/v2/" + repo + "/manifests/" + ref, repos: []string{repo}})
		if r.Panicked || w.quiet || w.faulted(r, repo) {
			return r
		}
		if off {
			if w.refusedBySwitch(r, "DELETE manifest") {
				w.compareObs(repo, pre, []string{"C14", "C19"}, "switch.state-changed", "DELETE manifest")
			}
			return r
		}
		if r.is5xx() {
			w.x.stop = true
			return r
		}
		if op.Mode == "tag" {
			if _, ok := mr.tags[op.Tag]; ok {
				if r.Code != 202 {
					w.x.viol([]string{"C03"}, "delete.status", "tag present -> "+strconv.Itoa(r.Code), fmt.Sprintf("DELETE of existing tag %s answered %d", op.Tag, r.Code))
					w.x.stop = true
					return r
				}
				delete(mr.tags, op.Tag)
				w.x.out.probe("tag-deleted")
			} else if r.is2xx() {
				w.x.viol([]string{"C03"}, "delete.status", "absent tag -> 2xx", fmt.Sprintf("DELETE of absent tag %s answered %d", op.Tag, r.Code))
			}
			return r
		}
		if !validDigest(d) {
			return r
		}
		x, ok := mr.mans[d]
		switch {
		case ok && !x.maybeGone:
			if r.Code != 202 {
				if mr.blobDeleted[d] {
					return r
				}
				note := ""
				if why := mr.causeOf(d); why != "" {
					note = " [" + why + "]"
				}
				w.x.viol([]string{"C03"}, "delete.status", "manifest present -> "+strconv.Itoa(r.Code)+note, fmt.Sprintf("DELETE of present manifest %s answered %d%s", d, r.Code, note))
				if note != "" && r.Code == 404 {
					// known family: the manifest is unreachable now but may come back (still in the child list): unsure from here on
					mr.resyncOrphans()
					x.maybeGone = true
					w.x.resync()
					return r
				}
				w.x.stop = true
				return r
			}
			w.deleteManifest(mr, d)
			w.x.out.probe("manifest-deleted")
		case ok:
			if r.Code == 202 {
				w.deleteManifest(mr, d)
			} else if r.Code == 404 && mr.causeOf(d) == "" {
				// (a manifest of a known family may be unreachable for this request only and served again later)
				w.deleteManifest(mr, d)
			}
		default:
			if r.is2xx() && !(mr.isChildOfPresent(d) || mr.ghosts[d]) {
				w.x.viol([]string{"C03"}, "delete.status", "absent manifest -> 2xx", fmt.Sprintf("DELETE of absent manifest %s answered %d", d, r.Code))
			}
		}
		return r
	}
	return nil
}

// orphanDependants: the content of manifest d is gone (deleted through the blob endpoint) while its index entry stays.
// What only d kept reachable - children that were moved to the child list, referrers - is in the same position as
// after a delete of d (same known families).
func (w *World) orphanDependants(mr *MRepo, d string) {
	for _, td := range mr.tags {
		if td == d {
			// the content of a tagged manifest was removed behind the tag: whether and when the tag goes (the next collection
			// prunes entries without content) is not something any property states; nothing more is claimed about this repository
			w.tainted[mr.name] = true
		}
	}
	if x, ok := mr.mans[d]; ok {
		for _, c := range x.view.children {
			if _, ok := mr.mans[c]; ok {
				mr.orphans[c] = "child of a deleted index"
			}
		}
		for ad, a := range mr.mans {
			if a.view.subject == d {
				mr.orphans[ad] = "referrer of a deleted subject"
			}
		}
	}
}

func (w *World) deleteManifest(mr *MRepo, d string) {
	if x, ok := mr.mans[d]; ok {
		if mr.isChildOfPresent(d) && mr.blobs[d] != nil {
			mr.ghosts[d] = true
		}
		if sj := x.view.subject; sj != "" && (mr.blobDeleted[d] || mr.blobs[d] == nil || mr.blobs[d].maybeGone) {
			if mr.staleRef[sj] == nil {
				mr.staleRef[sj] = map[string]bool{}
			}
			mr.staleRef[sj][d] = true
		}
		// every manifest below the deleted index is affected on its own: pushing an intermediate index again does not make
		// the server find its children again (they are only registered when the index file is read)
		seen := map[string]bool{}
		stack := append([]string{}, x.view.children...)
		for len(stack) > 0 {
			c := stack[len(stack)-1]
			stack = stack[:len(stack)-1]
			if seen[c] {
				continue
			}
			seen[c] = true
			if cx, ok := mr.mans[c]; ok {
				mr.orphans[c] = "child of a deleted index"
				stack = append(stack, cx.view.children...)
			} else if mr.blobs[c] != nil {
				mr.ghosts[c] = true
			}
		}
		for ad, a := range mr.mans {
			if a.view.subject == d {
				mr.orphans[ad] = "referrer of a deleted subject"
			}
		}
	}
	delete(mr.orphans, d)
	delete(mr.mans, d)
	delete(mr.blobDeleted, d)
	for t, td := range mr.tags {
		if td == d {
			delete(mr.tags, t)
		}
	}
}

// ---------------------------------------------------------------------------------------------
// tag listing

type tagListDoc struct {
	Name *string   `json:"name"`
	Tags *[]string `json:"tags"`
}

func (w *World) tagPage(repo, rawQuery string) (*Resp, []string, bool) {
	r := w.do(reqSpec{method: "GET", path: "/v2/" + repo + "/tags/list", query: rawQuery, repos: []string{repo}})
	if r.Panicked {
		return r, nil, false
	}
	if r.Code != 200 {
		return r, nil, false
	}
	doc := tagListDoc{}
	if err := json.Unmarshal(r.Body, &doc); err != nil || doc.Tags == nil {
		return r, nil, false
	}
	return r, *doc.Tags, true
}

func (w *World) modelTags(repo string) []string {
	var ts []string
	for t := range w.m.repo(repo).tags {
		ts = append(ts, t)
	}
	sort.Strings(ts)
	return ts
}

// opTags lists tags with parameters N and Last (raw strings; "" = absent) and, for a positive N, walks the Link chain.
func (w *World) opTags(op Op) {
	repo := w.repoName(op.Repo)
	q := url.Values{}
	if op.N != "" {
		q.Set("n", op.N)
	}
	if op.Last != "" {
		q.Set("last", op.Last)
	}
	all := w.modelTags(repo)
	r, tags, ok := w.tagPage(repo, q.Encode())
	if w.faulted(r, repo) {
		return
	}
	if r.Panicked {
		first, _, _ := strings.Cut(r.PanicMsg, "\n")
		w.x.viol([]string{"C03"}, "taglist.param", fmt.Sprintf("n=%s -> panic", classifyN(op.N)), fmt.Sprintf("tag list with n=%q last=%q panicked: %s", op.N, op.Last, first))
		return
	}
	if w.quiet {
		return
	}
	known := w.m.hasRepo(repo) && (len(w.m.repo(repo).blobs) > 0 || len(w.m.repo(repo).mans) > 0)
	if !ok {
		if r.Code == 404 && !known {
			return
		}
		w.x.viol([]string{"C03", "C15"}, "taglist.param", fmt.Sprintf("n=%s -> %d", classifyN(op.N), r.Code), fmt.Sprintf("tag list with n=%q last=%q answered %d %q (want a valid listing)", op.N, op.Last, r.Code, trunc(r.Body, 120)))
		return
	}
	// expected window
	var after []string
	for _, t := range all {
		if op.Last == "" || t > op.Last {
			after = append(after, t)
		}
	}
	n, nerr := strconv.Atoi(op.N)
	positive := op.N != "" && nerr == nil && n > 0
	if !sort.StringsAreSorted(tags) {
		w.x.viol([]string{"C03"}, "taglist.order", "unsorted", fmt.Sprintf("tag list not in lexical order: %v", tags))
	}
	if positive {
		want := after
		if len(want) > n {
			want = want[:n]
		}
		if !eqStrings(tags, want) {
			w.x.viol([]string{"C03"}, "taglist.set", "page content", fmt.Sprintf("tags?n=%s&last=%s returned %v, want %v (all: %v)", op.N, op.Last, tags, want, all))
			return
		}
		w.x.out.probe("taglist-paged")
		// walk the chain
		seen := append([]string(nil), tags...)
		link, has := parseLinkNext(r.H.Get("Link"))
		if len(after) > n && !has {
			w.x.viol([]string{"C03"}, "taglist.paging", "missing Link", fmt.Sprintf("tags?n=%s returned %d of %d tags without a next Link", op.N, len(tags), len(after)))
			return
		}
		for hops := 0; has && hops < len(all)+3; hops++ {
			u, err := url.Parse(link)
			if err != nil {
				w.x.viol([]string{"C03"}, "taglist.paging", "unparsable Link", fmt.Sprintf("Link %q", link))
				return
			}
			r2, t2, ok2 := w.tagPage(repo, u.RawQuery)
			if w.faulted(r2, repo) {
				return
			}
			if !ok2 {
				w.x.viol([]string{"C03"}, "taglist.paging", "next page failed", fmt.Sprintf("following %q answered %d", link, r2.Code))
				return
			}
			if len(t2) == 0 {
				w.x.viol([]string{"C03"}, "taglist.paging", "empty page in chain", fmt.Sprintf("following %q returned an empty page", link))
				return
			}
			seen = append(seen, t2...)
			link, has = parseLinkNext(r2.H.Get("Link"))
			if hops == len(all)+2 && has {
				w.x.viol([]string{"C03"}, "taglist.paging", "chain does not terminate", fmt.Sprintf("more than %d pages", hops))
				return
			}
		}
		if !eqStrings(seen, after) {
			w.x.viol([]string{"C03"}, "taglist.paging", "chain union", fmt.Sprintf("walking n=%s pages visited %v, want each of %v exactly once", op.N, seen, after))
		}
		return
	}
	if op.N == "" || nerr != nil {
		// absent (or non-numeric, treated as absent or empty) -> full listing
		if op.N != "" && len(tags) == 0 {
			return
		}
		if !eqStrings(tags, after) {
			w.x.viol([]string{"C03"}, "taglist.set", "full listing", fmt.Sprintf("tags?n=%q&last=%q returned %v, want %v", op.N, op.Last, tags, after))
		}
		return
	}
	// n <= 0: a valid, possibly empty listing: any subset prefix of the expected window
	if len(tags) > 0 && !eqStrings(tags, after) {
		if !isPrefix(tags, after) {
			w.x.viol([]string{"C03"}, "taglist.set", "n<=0 listing", fmt.Sprintf("tags?n=%s returned %v which is not part of %v", op.N, tags, after))
		}
	}
}

func classifyN(n string) string {
	v, err := strconv.Atoi(n)
	switch {
	case n == "":
		return "absent"
	case err != nil:
		return "non-numeric"
	case v == 0:
		return "0"
	case v < 0:
		return "negative"
	}
	return "positive"
}

func eqStrings(a, b []string) bool {
	if len(a) != len(b) {
		return false
	}
	for i := range a {
		if a[i] != b[i] {
			return false
		}
	}
	return true
}

func isPrefix(a, b []string) bool {
	if len(a) > len(b) {
		return false
	}
	for i := range a {
		if a[i] != b[i] {
			return false
		}
	}
	return true
}

// ---------------------------------------------------------------------------------------------
// referrers

type refIndexDoc struct {
	SchemaVersion int             `json:"schemaVersion"`
	MediaType     string          `json:"mediaType"`
	Manifests     json.RawMessage `json:"manifests"`
}

func (w *World) refPage(repo, subject, rawQuery string) (*Resp, []descJSON, bool) {
	r := w.do(reqSpec{method: "GET", path: "/v2/" + repo + "/referrers/" + subject, query: rawQuery, repos: []string{repo}})
	if r.Panicked || r.Code != 200 {
		return r, nil, false
	}
	doc := refIndexDoc{}
	if err := json.Unmarshal(r.Body, &doc); err != nil || doc.Manifests == nil {
		return r, nil, false
	}
	// "manifests": null is read as the empty list (the property asks for an empty index, not for a particular encoding)
	var ds []descJSON
	if err := json.Unmarshal(doc.Manifests, &ds); err != nil {
		return r, nil, false
	}
	return r, ds, true
}

// foreignContinuation sends the continuation of a paged listing (its page counter and cache token) to other repositories
// and for another subject: whatever comes back may only list referrers of the repository and subject that were asked.
func (w *World) foreignContinuation(repo, subj, rawQuery string) {
	if w.quiet || w.x.stop {
		return
	}
	type target struct{ repo, subj string }
	var ts []target
	for _, other := range append(append([]string{}, w.x.p.Repos...), "never/pushed") {
		if other != repo && reRepo.MatchString(other) {
			ts = append(ts, target{other, subj})
		}
	}
	ts = append(ts, target{repo, digestOf("sha256", []byte("another subject"))})
	if len(ts) > 3 {
		ts = ts[:3]
	}
	for _, t := range ts {
		r, descs, ok := w.refPage(t.repo, t.subj, rawQuery)
		if r.Panicked || !ok || w.faulted(r, t.repo) || w.tainted[t.repo] {
			continue
		}
		w.x.out.probe("referrers-foreign-continuation")
		must, may := w.m.repo(t.repo).referrers(t.subj)
		allowed := map[string]bool{}
		for _, d := range append(must, may...) {
			allowed[d] = true
		}
		for d := range w.m.repo(t.repo).staleRef[t.subj] {
			allowed[d] = true // known family [artifact deleted after its blob]: still listed in its own repository
		}
		for _, d := range descs {
			if !allowed[d.Digest] {
				if t.repo != repo {
					w.x.viol([]string{"C16", "C07"}, "iso.referrers-continuation", "page of another repository served", fmt.Sprintf("GET /v2/%s/referrers/%s?%s (the continuation of a listing in %s) lists %s, which is not a referrer of that subject in %s", t.repo, t.subj, rawQuery, repo, d.Digest, t.repo))
				} else {
					w.x.viol([]string{"C07"}, "referrers.set", "continuation of another subject's listing served", fmt.Sprintf("GET /v2/%s/referrers/%s?%s (the continuation of the listing of %s) lists %s, which does not have that subject", t.repo, t.subj, rawQuery, subj, d.Digest))
				}
				return
			}
		}
	}
}

// opRefs queries the referrers of a subject (object index, or literal digest in S) with an optional artifactType filter, walking pages.
func (w *World) opRefs(op Op) {
	repo := w.repoName(op.Repo)
	subj := op.S
	if subj == "" {
		subj = w.obj(op.Obj).digest(op.Algo)
	}
	q := url.Values{}
	if op.Filter != "" {
		q.Set("artifactType", op.Filter)
	}
	if op.Mode == "stale-page" {
		q.Set("page", strconv.Itoa(op.A))
		q.Set("cache", digestOf("sha256", []byte("stale")))
	}
	limit := w.k.refLimit()
	r, descs, ok := w.refPage(repo, subj, q.Encode())
	if r.Panicked || w.quiet || w.faulted(r, repo) {
		return
	}
	if !w.k.referrerOn() {
		if r.Code != 404 && !r.is4xx() {
			w.x.viol([]string{"C19"}, "cfg.flag-effect", "referrers disabled but routed", fmt.Sprintf("referrers request with the API disabled answered %d", r.Code))
		}
		return
	}
	if !validDigest(subj) {
		if !(r.Code == 200 || r.is4xx()) {
			w.x.viol([]string{"C07", "C15"}, "referrers.unknown-status", "malformed subject", fmt.Sprintf("referrers/%s answered %d", subj, r.Code))
		}
		return
	}
	if !ok {
		// olareg answers 404 for a repository whose index is not marked converted (API was disabled earlier); with the API on for the whole history this must be 200
		w.x.viol([]string{"C07"}, "referrers.unknown-status", strconv.Itoa(r.Code), fmt.Sprintf("referrers/%s in %s answered %d %q, want 200 with an index", subj, repo, r.Code, trunc(r.Body, 100)))
		return
	}
	unannounced := ""
	checkPage := func(r *Resp, first bool) {
		if ct := normCT(r.H.Get("Content-Type")); ct != mtOCIIndex {
			w.x.viol([]string{"C07"}, "referrers.descriptor", "response Content-Type", fmt.Sprintf("referrers response has Content-Type %q", ct))
		}
		if op.Filter != "" {
			if got := r.H.Get("OCI-Filters-Applied"); got != "artifactType" {
				// without the header the client must take the response as unfiltered (and filter itself);
				// that is only wrong when the response actually is a filtered subset - decided below
				which := "first response"
				if !first {
					which = "follow-up page"
				}
				if w.x.extra["refsRepeat"] == true && first {
					which = "repeated (cached) response"
				}
				unannounced = which
			}
		}
		if limit > 0 && int64(len(r.Body)) > limit {
			w.x.viol([]string{"C07"}, "referrers.page-size", "page larger than limit", fmt.Sprintf("referrers page of %d bytes exceeds the limit %d", len(r.Body), limit))
		}
	}
	checkPage(r, true)
	all := append([]descJSON(nil), descs...)
	link, has := parseLinkNext(r.H.Get("Link"))
	pages := 1
	lastQuery := ""
	defer func() {
		// a client that asks for one page more than there are (or repeats a continuation with another page number) gets an
		// answer like anybody else: the generic oracles (no panic, no 5xx) judge it
		if lastQuery == "" || w.x.stop {
			return
		}
		if q, err := url.ParseQuery(lastQuery); err == nil {
			for _, pg := range []int{pages, pages + 1} {
				q.Set("page", strconv.Itoa(pg))
				w.do(reqSpec{method: "GET", path: "/v2/" + repo + "/referrers/" + subj, query: q.Encode(), repos: []string{repo}})
			}
			w.x.out.probe("referrers-page-past-the-end")
		}
	}()
	churned, victim := false, ""
	for has && pages < 200 {
		if op.Mode == "churn" && !churned && len(descs) > 0 && w.k.deleteOn() && !w.k.readOnly() {
			// between two pages of the chain an artifact of the first page is deleted and the cached pages are lost (they
			// expire, or the registry restarts): what is there all the time still has to come along the chain
			for oi, o := range w.x.p.Objs {
				if (o.Kind == "image" || o.Kind == "index") && (o.digest("sha256") == descs[0].Digest || o.digest("sha512") == descs[0].Digest) {
					victim = descs[0].Digest
					w.opDelete(Op{K: "del", Mode: "man", Repo: op.Repo, Obj: oi, Algo: algoOf(victim)})
					break
				}
			}
			churned = true
			if victim != "" {
				if ms := w.k.PageCacheMs; ms > 0 && ms <= 5000 {
					simrt.Sleep(time.Duration(ms+1) * time.Millisecond)
				} else if w.k.Store == "dir" {
					w.opRestart()
				}
				w.x.out.probe("referrers-churn-between-pages")
			}
			if w.x.stop {
				return
			}
		}
		u, err := url.Parse(link)
		if err != nil {
			w.x.viol([]string{"C07"}, "referrers.chain", "unparsable Link", link)
			return
		}
		lastQuery = u.RawQuery
		w.foreignContinuation(repo, subj, u.RawQuery)
		r2, d2, ok2 := w.refPage(repo, subj, u.RawQuery)
		if w.faulted(r2, repo) {
			return
		}
		if !ok2 {
			w.x.viol([]string{"C07"}, "referrers.chain", "next page failed", fmt.Sprintf("following %q answered %d", link, r2.Code))
			return
		}
		checkPage(r2, false)
		all = append(all, d2...)
		link, has = parseLinkNext(r2.H.Get("Link"))
		pages++
	}
	if pages > 1 {
		w.x.out.probe("referrers-paged")
	}
	if pages >= 200 {
		w.x.viol([]string{"C07"}, "referrers.chain", "does not terminate", "more than 200 pages")
		return
	}
	mr := w.m.repo(repo)
	must, may := mr.referrers(subj)
	got := map[string]descJSON{}
	for _, d := range all {
		if _, dup := got[d.Digest]; dup && !churned {
			w.x.viol([]string{"C07"}, "referrers.set", "duplicate entry", fmt.Sprintf("referrers of %s list %s twice", subj, d.Digest))
		}
		got[d.Digest] = d
	}
	match := func(d string) bool {
		return op.Filter == "" || mr.mans[d].artifactType() == op.Filter
	}
	wantN := 0
	for _, d := range must {
		if !match(d) {
			if _, listed := got[d]; !listed && unannounced != "" && mr.causeOf(d) == "" && !mr.respLost[subj] {
				w.x.viol([]string{"C07"}, "referrers.filter-header", unannounced, fmt.Sprintf("referrers of %s with artifactType=%q: the %s carries no OCI-Filters-Applied header although it is filtered (%s with artifactType %q is left out)", subj, op.Filter, unannounced, d, mr.mans[d].artifactType()))
				unannounced = ""
			}
			continue
		}
		wantN++
		g, ok := got[d]
		if !ok && op.Mode == "stale-page" {
			continue // a request that starts in the middle of an outdated chain is not a chain: only "no extra entries" is demanded of it
		}
		if !ok {
			// may legitimately be missing only if it cannot fit into a page on its own
			if limit > 0 && w.descTooBig(mr.mans[d], d, limit) {
				continue
			}
			how := w.pushHistory(repo, d)
			if why := mr.causeOf(d); why != "" {
				how += " [" + why + "]"
			} else if why := mr.causeOf(subj); why != "" {
				how += " [subject: " + why + "]"
			} else if mr.respLost[subj] {
				how += " [referrers response collected by policy while artifacts remain]"
			}
			if strings.Contains(how, "[") {
				defer func() { mr.resyncOrphans(); w.x.resync() }()
			}
			w.x.viol([]string{"C07"}, "referrers.set", "missing referrer"+how, fmt.Sprintf("referrers of %s (filter %q) lack %s, a present manifest with that subject%s; listed: %v", subj, op.Filter, d, how, keysOf(got)))
			continue
		}
		w.checkDesc(mr.mans[d], d, g)
	}
	for d, g := range got {
		x, present := mr.mans[d]
		if churned && d == victim {
			continue // listed on the first page, deleted afterwards
		}
		if !present && mr.staleRef[subj][d] {
			w.x.viol([]string{"C07"}, "referrers.set", "extra entry [artifact deleted after its blob]", fmt.Sprintf("referrers of %s list %s, a manifest that was deleted after its blob had been removed through the blob endpoint", subj, d))
			w.x.resync()
			continue
		}
		if !present || x.view.subject != subj {
			w.x.viol([]string{"C07"}, "referrers.set", "extra entry", fmt.Sprintf("referrers of %s list %s which is not a present manifest with that subject", subj, d))
			continue
		}
		if !match(d) {
			w.x.viol([]string{"C07"}, "referrers.filter", "non-matching entry", fmt.Sprintf("filter %q returned %s with artifactType %q", op.Filter, d, x.artifactType()))
		}
		_ = g
	}
	_ = may
	if wantN > 0 {
		w.x.out.probe("referrers-nonempty")
	}
	if op.Filter != "" && wantN > 0 {
		w.x.out.probe("referrers-filtered-nonempty")
	}
}

func keysOf(m map[string]descJSON) []string {
	var k []string
	for d := range m {
		k = append(k, d[:19])
	}
	sort.Strings(k)
	return k
}

func (w *World) pushHistory(repo, d string) string {
	if h, ok := w.x.extra["hist:"+repo+"@"+d]; ok {
		return " (" + h.(string) + ")"
	}
	return ""
}

func (w *World) expectedDesc(x *MMan, d string) descJSON {
	return descJSON{MediaType: x.mt, Digest: d, Size: int64(len(x.data)), ArtifactType: x.artifactType(), Annotations: x.view.annot}
}

func (w *World) descTooBig(x *MMan, d string, limit int64) bool {
	e := w.expectedDesc(x, d)
	if x.untyped {
		// whichever reading of the type is the longer one
		for mt := range x.mts {
			if len(mt) > len(e.MediaType) {
				e.MediaType = mt
			}
		}
	}
	doc := map[string]any{"schemaVersion": 2, "mediaType": mtOCIIndex, "manifests": []descJSON{e}}
	b, _ := json.Marshal(doc)
	return int64(len(b)) > limit
}

func (w *World) checkDesc(x *MMan, d string, g descJSON) {
	e := w.expectedDesc(x, d)
	var diffs []string
	if g.MediaType != e.MediaType && !(x.untyped && x.mts[g.MediaType]) {
		diffs = append(diffs, fmt.Sprintf("mediaType %q want %q", g.MediaType, e.MediaType))
	}
	if g.Size != e.Size {
		diffs = append(diffs, fmt.Sprintf("size %d want %d", g.Size, e.Size))
	}
	if g.ArtifactType != e.ArtifactType {
		diffs = append(diffs, fmt.Sprintf("artifactType %q want %q", g.ArtifactType, e.ArtifactType))
	}
	if len(g.Annotations) != len(e.Annotations) {
		diffs = append(diffs, fmt.Sprintf("annotations %v want %v", g.Annotations, e.Annotations))
	} else {
		for k, v := range e.Annotations {
			if g.Annotations[k] != v {
				diffs = append(diffs, fmt.Sprintf("annotation %s=%q want %q", k, g.Annotations[k], v))
			}
		}
	}
	if len(diffs) > 0 {
		sigs := []string{}
		for _, df := range diffs {
			f, _, _ := strings.Cut(df, " ")
			sigs = append(sigs, f)
		}
		w.x.viol([]string{"C07"}, "referrers.descriptor", strings.Join(sigs, ","), fmt.Sprintf("descriptor of %s: %s", d, strings.Join(diffs, "; ")))
	}
}

// faulted reports (and remembers) that an injected disk fault hit this request: nothing beyond the generic oracles is claimed then.
func (w *World) faulted(r *Resp, repo string) bool {
	if w.faultOverlapped(r) {
		if w.k.FaultRecover && !w.tainted[repo] {
			w.pendingFault[repo] = true
		} else {
			w.tainted[repo] = true
		}
		return true
	}
	return false
}

func (w *World) resyncAll() {
	for _, mr := range w.m.repos {
		mr.resyncOrphans()
	}
}
