//go:build go1.25

package olareg

// World: one server under test plus its reference model; request plumbing and the oracles that
// apply to every response.

import (
	"bytes"
	"context"
	"fmt"
	"io"
	"net/http"
	"net/http/httptest"
	"net/url"
	"os"
	"path"
	"path/filepath"
	"regexp"
	"runtime/debug"
	"strings"
	"time"

	"github.com/olareg/olareg/internal/simrt"
	"github.com/olareg/olareg/internal/store"
)

type Resp struct {
	Code     int
	H        http.Header
	Body     []byte
	Panicked bool
	PanicMsg string
	fsFrom   int // seam op counter before / after
	fsTo     int
	method   string
	path     string
	route    string
	refused  bool      // nobody listens (any more): there is no answer
	lastBody time.Time // when the last piece of the request body was handed to the server
	bodyGap  time.Duration // longest pause between two pieces of the body
}

func (r *Resp) is2xx() bool { return r.Code >= 200 && r.Code < 300 }
func (r *Resp) is4xx() bool { return r.Code >= 400 && r.Code < 500 }
func (r *Resp) is5xx() bool { return r.Code >= 500 }

type World struct {
	x                *X
	k                Knobs
	srv              *Server
	m                *Model
	root             string // storage root directory ("" for pure memory)
	gen              int
	closed           bool
	name             string          // "dir", "mem" … for differential runs
	tainted          map[string]bool // repositories in which a disk fault was injected
	faultsSeen       int
	inFlightEvict    map[string]bool
	quiet            bool // suppress model-based oracles (used while replaying on a secondary store)
	reqN             int
	cancelNext       bool
	abortedReq       bool
	addressed        map[string]bool
	restartAt        int
	openedAt         time.Time // when the server was created (its tickers count from here)
	lenientUpload5xx bool
	closing          bool // Close was called while requests are in flight: only liveness is judged
	lastGCBusy       bool
	sessions         map[int]*MSess
	props            []string // properties this run's generic oracles speak for in addition to their own
	served           bool     // requests go through Server.Run's listener, the end is Server.Shutdown (liveness profiles)
	serveDone        *simrt.WaitGroup
	switchTo         string   // store kind the next restart opens ("memdir")
	switched         bool
	lastLoc          string   // Location of the latest 202 for an upload: the session adversarial requests are aimed at
	residueOK        map[string]bool // FaultRecover: a request that failed with a disk error may have left a temporary file behind
	pendingFault     map[string]bool // FaultRecover: repositories whose requests a fault hit during the current operation
}

func newWorld(x *X, k Knobs, root, name string) *World {
	w := &World{x: x, k: k, root: root, name: name, tainted: map[string]bool{}, sessions: map[int]*MSess{}, inFlightEvict: map[string]bool{}, pendingFault: map[string]bool{}, residueOK: map[string]bool{}}
	w.m = newModel(k)
	return w
}

func (w *World) open() {
	w.gen++
	if t := simrt.Cur(); t != nil {
		t.Gen = w.gen
	}
	w.openedAt = time.Now()
	w.srv = New(w.k.config(w.root))
	w.closed = false
	if w.served {
		// the server listens (Server.Run on the simulated listener) and is ended with Server.Shutdown; requests are handed
		// to the listener instead of the handler
		srv := w.srv
		w.serveDone = &simrt.WaitGroup{}
		w.serveDone.Add(1)
		done := w.serveDone
		w.x.sim.GoNamed("serve", "go", func() {
			defer done.Done()
			_ = srv.Run(context.Background())
		})
		for i := 0; i < 10000 && !simrt.Listening(""); i++ {
			simrt.Sleep(time.Microsecond)
		}
		w.x.out.probe("served-by-run")
	}
}

func (w *World) close() error {
	if w.closed || w.srv == nil {
		return nil
	}
	w.closed = true
	if w.served {
		err := w.srv.Shutdown(context.Background())
		w.serveDone.Wait()
		w.x.out.probe("shutdown-returned")
		return err
	}
	return w.srv.Close()
}

func (w *World) now() time.Time { return time.Now() }

// bodyReader delivers a request body in pieces; between pieces it yields (and optionally sleeps
// simulated time), and it can abort with an error after a number of bytes.
type bodyReader struct {
	data    []byte
	pieces  []int // sizes; remainder delivered in one piece
	pos     int
	pi      int
	sleepMs int64
	abortAt int // <0: never
	lastAt  time.Time // when the last piece was handed over
	maxGap  time.Duration // longest pause between two pieces
	stall   *simrt.WaitGroup // after the first piece the client sends nothing more until this is released, then goes away
}

func (b *bodyReader) Read(p []byte) (int, error) {
	if b.abortAt >= 0 && b.pos >= b.abortAt {
		return 0, io.ErrUnexpectedEOF
	}
	if b.pos >= len(b.data) {
		return 0, io.EOF
	}
	if b.pos > 0 && b.stall != nil {
		b.stall.Wait()
		return 0, io.ErrUnexpectedEOF
	}
	if b.pos > 0 {
		if b.sleepMs > 0 {
			simrt.Sleep(time.Duration(b.sleepMs) * time.Millisecond)
		} else if simrt.Cur() != nil {
			simrt.Yield()
		}
	}
	n := len(b.data) - b.pos
	if b.pi < len(b.pieces) {
		if b.pieces[b.pi] < n {
			n = b.pieces[b.pi]
		}
		b.pi++
	}
	if n <= 0 {
		n = 1
	}
	if b.abortAt >= 0 && b.pos+n > b.abortAt {
		n = b.abortAt - b.pos
		if n <= 0 {
			return 0, io.ErrUnexpectedEOF
		}
	}
	if n > len(p) {
		n = len(p)
	}
	copy(p, b.data[b.pos:b.pos+n])
	b.pos += n
	if t := time.Now(); !b.lastAt.IsZero() && t.Sub(b.lastAt) > b.maxGap {
		b.maxGap = t.Sub(b.lastAt)
	}
	b.lastAt = time.Now()
	return n, nil
}
func (b *bodyReader) Close() error { return nil }

type reqSpec struct {
	method     string
	path       string // already escaped path
	query      string
	hdr        http.Header
	body       []byte
	pieces     []int
	sleepMs    int64
	abort      bool
	abortAt    int
	noBody     bool
	unknownLen bool
	cl         *int64 // explicit Content-Length override
	addr       string
	repos      []string // repositories this request addresses (for the path monitor)
	ctx        context.Context
	stall      *simrt.WaitGroup // the body stops after its first piece until this is released (a client that stalls)
}

func routeOf(method, p string) string {
	el := strings.Split(strings.Trim(path.Clean("/"+p), "/"), "/")
	n := len(el)
	switch {
	case n == 1 && el[0] == "v2":
		return "ping"
	case n >= 4 && el[n-2] == "manifests":
		return "manifest"
	case n >= 5 && el[n-3] == "blobs" && el[n-2] == "uploads":
		return "upload"
	case n >= 4 && el[n-2] == "blobs" && el[n-1] == "uploads":
		return "upload-post"
	case n >= 4 && el[n-2] == "blobs":
		return "blob"
	case n >= 4 && el[n-2] == "referrers":
		return "referrers"
	case n >= 4 && el[n-2] == "tags" && el[n-1] == "list":
		return "tags"
	}
	return "other"
}

var reHex = regexp.MustCompile(`[0-9a-f]{12,}|0x[0-9a-f]+|\d+`)

func normPanic(s string) string {
	s = reHex.ReplaceAllString(s, "N")
	if len(s) > 80 {
		s = s[:80]
	}
	return s
}

// do issues one request against the server, inside the calling task.
func (w *World) do(rs reqSpec) *Resp {
	w.reqN++
	w.x.out.Requests++
	for _, rp := range rs.repos {
		if reRepo.MatchString(rp) {
			if w.addressed == nil {
				w.addressed = map[string]bool{}
			}
			w.addressed[rp] = true
		}
	}
	u := &url.URL{Path: rs.path, RawQuery: rs.query}
	if up, err := url.PathUnescape(rs.path); err == nil {
		u.Path = up
		if up != rs.path {
			u.RawPath = rs.path
		}
	}
	hdr := rs.hdr
	if hdr == nil {
		hdr = http.Header{}
	}
	ctx := rs.ctx
	if ctx == nil {
		ctx = context.Background()
	}
	req := (&http.Request{Method: rs.method, URL: u, Header: hdr, Proto: "HTTP/1.1", ProtoMajor: 1, ProtoMinor: 1,
		Host: "registry.test", RequestURI: u.RequestURI(), RemoteAddr: "192.0.2.1:4711"}).WithContext(ctx)
	if rs.addr != "" {
		req.RemoteAddr = rs.addr
	}
	var br *bodyReader
	if rs.noBody || rs.body == nil {
		req.Body = http.NoBody
		req.ContentLength = 0
	} else {
		abort := -1
		if rs.abort {
			abort = rs.abortAt
		}
		br = &bodyReader{data: rs.body, pieces: rs.pieces, sleepMs: rs.sleepMs, abortAt: abort, stall: rs.stall}
		req.Body = br
		req.ContentLength = int64(len(rs.body))
		if rs.unknownLen {
			req.ContentLength = -1
			req.TransferEncoding = []string{"chunked"}
		}
	}
	if rs.cl != nil {
		req.ContentLength = *rs.cl
	}
	rec := httptest.NewRecorder()
	resp := &Resp{method: rs.method, path: rs.path, route: routeOf(rs.method, u.Path)}
	t := simrt.Cur()
	if t != nil {
		t.Tag = fmt.Sprintf("%s#%d %s %s", t.Name, w.reqN, rs.method, rs.path)
		t.Repos = rs.repos
		if t.Repos == nil {
			t.Repos = []string{}
		}
	}
	if t != nil {
		simrt.Sleep(10 * time.Microsecond) // network latency: time passes between requests
	}
	resp.fsFrom = w.x.sim.FS.N
	func() {
		defer func() {
			if r := recover(); r != nil {
				resp.Panicked = true
				resp.PanicMsg = fmt.Sprintf("%v\n%s", r, debug.Stack())
			}
		}()
		simrt.EnterServer()
		defer simrt.LeaveServer()
		if w.served {
			if t != nil && rs.addr == "" {
				// one connection per client task
				req.RemoteAddr = fmt.Sprintf("192.0.2.1:%d", 4711+len(t.Name)*131+int(t.Name[len(t.Name)-1]))
			}
			if err := simrt.Deliver("", rec, req); err != nil {
				resp.refused = true
			}
			return
		}
		w.srv.ServeHTTP(rec, req)
	}()
	resp.fsTo = w.x.sim.FS.N
	if t != nil {
		t.Tag, t.Repos = "", nil
	}
	resp.Code, resp.H, resp.Body = rec.Code, rec.Result().Header, rec.Body.Bytes()
	if br != nil {
		resp.lastBody, resp.bodyGap = br.lastAt, br.maxGap
	}
	if loc := resp.H.Get("Location"); resp.Code == 202 && strings.Contains(loc, "/blobs/uploads/") {
		w.lastLoc = loc
	}
	if traceOn {
		fmt.Printf("TRACE %s t=%s %s %s?%s -> %d %s fs[%d..%d] %s\n", w.name, time.Since(w.x.start), rs.method, rs.path, rs.query, resp.Code, trunc(resp.Body, 100), resp.fsFrom, resp.fsTo, resp.H.Get("Location"))
	}
	if resp.refused {
		resp.Code = 0
		return resp
	}
	w.generic(rs, resp)
	return resp
}

func (w *World) faultOverlapped(r *Resp) bool {
	for _, n := range w.x.sim.FS.Fired {
		if n > r.fsFrom && n <= r.fsTo {
			return true
		}
	}
	return false
}

// generic applies the oracles that hold for every response (C15, the digest part of C01).
func (w *World) generic(rs reqSpec, r *Resp) {
	x := w.x
	if w.closing {
		return
	}
	if r.Panicked {
		first, _, _ := strings.Cut(r.PanicMsg, "\n")
		x.viol([]string{"C15"}, "req.panic", r.route+" "+rs.method+": "+normPanic(first), fmt.Sprintf("%s %s?%s panicked: %s", rs.method, rs.path, rs.query, r.PanicMsg))
		return
	}
	// note faults for taint tracking
	if len(x.sim.FS.Fired) > w.faultsSeen {
		w.faultsSeen = len(x.sim.FS.Fired)
		for _, rp := range rs.repos {
			if w.k.FaultRecover && !w.tainted[rp] {
				w.pendingFault[rp] = true // decided when the operation is over (recoverFaults)
			} else {
				w.tainted[rp] = true
			}
		}
		w.tainted["*"] = true
	}
	if r.is5xx() {
		// a client that went away mid-body never sees the status; what matters is the session state afterwards
		excused := w.faultOverlapped(r) || w.closed || rs.abort
		for _, rp := range rs.repos {
			// (a session that expires or is evicted while a request on it is in flight ends that request with a 4xx:
			// BLOB_UPLOAD_UNKNOWN. Until round 2 a 5xx was excused there, which hid a defect)
			if w.tainted[rp] || w.pendingFault[rp] {
				excused = true
			}
		}
		if w.tainted["*"] && len(rs.repos) == 0 {
			excused = true
		}
		if w.lenientUpload5xx && r.route == "manifest" && rs.method == "PUT" {
			// the session (a manifest push uses one internally) may expire or be evicted by other clients while the request is in flight
			excused = true
		}
		if !excused {
			props := []string{"C15"}
			if r.route == "upload" || r.route == "upload-post" {
				props = []string{"C15", "C08"} // (a session that has ceased to exist refuses further use: a refusal is a 4xx)
			}
			x.viol(props, "req.5xx-healthy", fmt.Sprintf("%s %s -> %d", rs.method, r.route, r.Code),
				fmt.Sprintf("%s %s?%s answered %d with healthy storage; body=%q", rs.method, rs.path, rs.query, r.Code, trunc(r.Body, 200)))
		}
	}
	if r.Code >= 400 && len(r.Body) > 0 && rs.method != "HEAD" {
		codes, ok := parseErrorBody(r.Body)
		if !ok {
			// plain-text bodies written by net/http itself (ServeContent range errors) are not OCI documents;
			// they are produced by the standard library for Range handling only
			if !(r.Code == 416 && (r.route == "blob" || r.route == "manifest")) {
				x.viol([]string{"C15"}, "req.error-body", fmt.Sprintf("%s %s -> %d", rs.method, r.route, r.Code),
					fmt.Sprintf("%s %s?%s: error body is not an OCI error document: %q", rs.method, rs.path, rs.query, trunc(r.Body, 200)))
			}
		} else {
			for _, c := range codes {
				if !ociCodes[c] {
					x.viol([]string{"C15"}, "req.error-code", fmt.Sprintf("unregistered code %q", trunc([]byte(c), 40)),
						fmt.Sprintf("%s %s?%s -> %d carries unregistered error code %q", rs.method, rs.path, rs.query, r.Code, c))
				}
			}
		}
	}
	// served content hashes to the digest it is served under
	if (r.route == "blob" || r.route == "manifest") && (rs.method == "GET" || rs.method == "HEAD") && r.Code == 200 {
		d := r.H.Get("Docker-Content-Digest")
		if !validDigest(d) {
			x.viol([]string{"C01"}, "get.digest-header", r.route, fmt.Sprintf("%s %s: 200 without a parsable Docker-Content-Digest (%q)", rs.method, rs.path, d))
		} else if rs.method == "GET" {
			if got := digestOf(algoOf(d), r.Body); got != d {
				x.viol([]string{"C01"}, "get.digest-mismatch", r.route, fmt.Sprintf("GET %s: body (%d bytes) hashes to %s, served as %s", rs.path, len(r.Body), got, d))
			}
		}
		// … and, addressed by digest, to the digest it was asked for
		if i := strings.LastIndex(rs.path, "/"); i >= 0 && validDigest(rs.path[i+1:]) {
			asked := rs.path[i+1:]
			if rs.method == "GET" {
				if got := digestOf(algoOf(asked), r.Body); got != asked {
					x.viol([]string{"C01"}, "get.digest-mismatch", r.route+" by digest: other content", fmt.Sprintf("GET %s: body (%d bytes) hashes to %s, asked for %s (Docker-Content-Digest %s)", rs.path, len(r.Body), got, asked, d))
				}
			} else if algoOf(asked) == algoOf(d) && asked != d {
				x.viol([]string{"C01"}, "get.digest-mismatch", r.route+" by digest: other content", fmt.Sprintf("HEAD %s: answered 200 for %s", rs.path, d))
			}
		}
	}
}

func trunc(b []byte, n int) string {
	if len(b) > n {
		return string(b[:n]) + "…"
	}
	return string(b)
}

func (w *World) errCodes(r *Resp) []string {
	c, _ := parseErrorBody(r.Body)
	return c
}

func hasCode(codes []string, want ...string) bool {
	for _, c := range codes {
		for _, x := range want {
			if c == x {
				return true
			}
		}
	}
	return false
}

// ---------------------------------------------------------------------------------------------
// store access for forced collections

func (w *World) forceGC(repo string) error {
	if w.srv == nil || w.srv.store == nil {
		return nil
	}
	r, err := w.srv.store.RepoGet(context.Background(), repo)
	if err != nil {
		return err
	}
	r.Done()
	return store.VerifGC(r)
}

func (w *World) forceGCPass(prev time.Time) error {
	if w.srv == nil || w.srv.store == nil {
		return nil
	}
	return store.VerifGCPass(w.srv.store, time.Now(), prev)
}

// othersIdle reports whether every other task is done or waiting for simulated time only.
func (w *World) settle() {
	w.x.sim.WaitIdle()
}

// ---------------------------------------------------------------------------------------------
// directory helpers

type fileInfo struct {
	size int64
	sum  string
	dir  bool
	mt   time.Time
}

// scanTree lists every file below root (relative paths) with size and content hash.
func scanTree(root string) map[string]fileInfo {
	out := map[string]fileInfo{}
	_ = filepath.Walk(root, func(p string, fi os.FileInfo, err error) error {
		if err != nil || p == root {
			return nil
		}
		rel, _ := filepath.Rel(root, p)
		if fi.IsDir() {
			out[rel] = fileInfo{dir: true}
			return nil
		}
		b, _ := os.ReadFile(p)
		out[rel] = fileInfo{size: fi.Size(), sum: digestOf("sha256", b), mt: fi.ModTime()}
		return nil
	})
	return out
}

func diffTrees(a, b map[string]fileInfo, withTimes bool) []string {
	var d []string
	for p, fa := range a {
		fb, ok := b[p]
		if !ok {
			d = append(d, "removed "+p)
		} else if fa.dir != fb.dir || fa.sum != fb.sum || fa.size != fb.size {
			d = append(d, "changed "+p)
		} else if withTimes && !fa.dir && !fa.mt.Equal(fb.mt) {
			d = append(d, "touched "+p)
		}
	}
	for p := range b {
		if _, ok := a[p]; !ok {
			d = append(d, "created "+p)
		}
	}
	return d
}

func copyTree(src, dst string) error {
	return filepath.Walk(src, func(p string, fi os.FileInfo, err error) error {
		if err != nil {
			return nil
		}
		rel, _ := filepath.Rel(src, p)
		t := filepath.Join(dst, rel)
		if fi.IsDir() {
			return os.MkdirAll(t, 0755)
		}
		b, err := os.ReadFile(p)
		if err != nil {
			return nil
		}
		if err := os.WriteFile(t, b, 0644); err != nil {
			return err
		}
		return os.Chtimes(t, fi.ModTime(), fi.ModTime())
	})
}

var _ = bytes.Equal

var traceOn = os.Getenv("VERIF_TRACE") != ""
