//go:build go1.25

package olareg

// Concurrent engine: several client tasks run against one server under the seeded scheduler.
// C11: recorded history is linearizable w.r.t. a per-repository registry model (porcupine) and no
// acknowledged update is lost. C12: no schedule hangs the registry. C13: same workloads, -race build.

import (
	"bytes"
	"context"
	"encoding/json"
	"fmt"
	"net/http"
	"net/url"
	"os"
	"path/filepath"
	"sort"
	"strings"
	"time"

	"github.com/anishathalye/porcupine"

	"github.com/olareg/olareg/internal/simrt"
)

func init() {
	engines["conc"] = engineConc
	planners["C11"] = planC11
	planners["C12"] = planC12
	planners["C13"] = planC13
}

// ---------------------------------------------------------------------------------------------
// history

type linIn struct {
	Kind    string // putman, deltag, delman, gettag, getman, tags, refs
	Repo    string
	Tag     string
	Digest  string
	Subject string
	Filter  string // refs: artifactType filter
}

// linAT: artifactType of every manifest of the plan (static; what a filtered listing selects by)
var linAT = map[string]string{}

func linWantRefs(subjOf map[string]string, in linIn) []string {
	var want []string
	for d, sub := range subjOf {
		if sub == in.Subject && (in.Filter == "" || linAT[d] == in.Filter) {
			want = append(want, d)
		}
	}
	sort.Strings(want)
	return want
}

type linOut struct {
	Code   int
	Digest string
	List   []string
}

type histEv struct {
	client    int
	in        linIn
	out       linOut
	call, ret int64
}

type concRun struct {
	w          *World
	seq        int64
	hist       []histEv
	acked      map[string]map[string]bool     // repo -> manifest digests acknowledged (201)
	tagged     map[string]map[string][]string // repo -> tag -> digests pushed under it (acknowledged or in flight)
	delMan     map[string]map[string]bool     // repo -> digests some client tries to delete
	delTag     map[string]map[string]bool
	subj       map[string]map[string]string // repo -> artifact digest -> subject
	tagAck     map[string]bool              // repo + " " + tag: some push under this tag was acknowledged
	inflight   int
	closing    bool
	done       []bool
	shared     map[int]*sharedSess
	uploaded   map[string]map[string]bool // repo -> blob digests whose upload was acknowledged
	stable     map[string]string          // repo + " " + tag -> digest: established by the prologue, touched by no client
	stableBlob map[string]bool            // repo + " " + digest: config/layers of the manifests behind those tags
	cold       bool                       // the server was restarted between the prologue and the clients
}

// also lists the properties whose statement a violated quiescent or stable-state check contradicts besides C11: the
// statements of C02, C03 and C07 quantify over all histories, concurrent ones included; C10 over restarts
func (c *concRun) speaks(extra ...string) []string {
	return append([]string{"C11"}, extra...)
}

func (c *concRun) stamp() int64 { c.seq++; return c.seq }

func (c *concRun) record(client int, in linIn, call int64, out linOut) {
	c.hist = append(c.hist, histEv{client: client, in: in, out: out, call: call, ret: c.stamp()})
}

// ---------------------------------------------------------------------------------------------
// porcupine model: state is a canonical string "tags|mans" per repository

type linState struct {
	Tags map[string]string // tag -> digest
	Mans map[string]string // digest -> subject ("" none)
}

func (s linState) clone() linState {
	n := linState{Tags: map[string]string{}, Mans: map[string]string{}}
	for k, v := range s.Tags {
		n.Tags[k] = v
	}
	for k, v := range s.Mans {
		n.Mans[k] = v
	}
	return n
}

func (s linState) key() string {
	var p []string
	for _, t := range sortedKeys(s.Tags) {
		p = append(p, "t"+t+"="+s.Tags[t])
	}
	for _, d := range sortedKeys(s.Mans) {
		p = append(p, "m"+d+">"+s.Mans[d])
	}
	return strings.Join(p, ";")
}

func linStep(state, input, output interface{}) (bool, interface{}) {
	s := state.(linState)
	in := input.(linIn)
	out := output.(linOut)
	switch in.Kind {
	case "putman":
		if out.Code != 201 {
			return true, s // not acknowledged: may or may not have taken effect? a refused push has no effect
		}
		n := s.clone()
		n.Mans[in.Digest] = in.Subject
		if in.Tag != "" {
			n.Tags[in.Tag] = in.Digest
		}
		return true, n
	case "deltag":
		_, ok := s.Tags[in.Tag]
		// deleting something that is already gone may be acknowledged again (202) when another delete was in flight:
		// the property speaks of lost updates and impossible reads, not of the status of a redundant delete
		if ok && out.Code != 202 || !ok && out.Code != 404 && out.Code != 202 {
			return false, s
		}
		if !ok {
			return true, s
		}
		n := s.clone()
		delete(n.Tags, in.Tag)
		return true, n
	case "delman":
		_, ok := s.Mans[in.Digest]
		if ok && out.Code != 202 || !ok && out.Code != 404 && out.Code != 202 {
			return false, s
		}
		if !ok {
			return true, s
		}
		n := s.clone()
		delete(n.Mans, in.Digest)
		for t, d := range n.Tags {
			if d == in.Digest {
				delete(n.Tags, t)
			}
		}
		return true, n
	case "gettag":
		d, ok := s.Tags[in.Tag]
		if !ok {
			return out.Code == 404, s
		}
		return out.Code == 200 && out.Digest == d, s
	case "getman":
		_, ok := s.Mans[in.Digest]
		return ok == (out.Code == 200), s
	case "tags":
		want := sortedKeys(s.Tags)
		return out.Code == 200 && eqStrings(want, out.List), s
	case "refs":
		want := linWantRefs(s.Mans, in)
		got := append([]string(nil), out.List...)
		sort.Strings(got)
		return out.Code == 200 && eqStrings(want, got), s
	}
	return true, s
}

// relaxed model: an artifact push / delete is two independent atomic steps (index entry, referrers entry).
// Used only to classify an Illegal history: if the relaxed model explains it, the two-step update is the cause.
type relState struct {
	linState
	Refs map[string]string
}

func (s relState) key() string {
	var p []string
	for _, d := range sortedKeys(s.Refs) {
		p = append(p, "r"+d+">"+s.Refs[d])
	}
	return s.linState.key() + "#" + strings.Join(p, ";")
}

func (s relState) clone() relState {
	n := relState{linState: s.linState.clone(), Refs: map[string]string{}}
	for k, v := range s.Refs {
		n.Refs[k] = v
	}
	return n
}

var relModel = porcupine.Model{
	Init: func() interface{} {
		return relState{linState: linState{Tags: map[string]string{}, Mans: map[string]string{}}, Refs: map[string]string{}}
	},
	Step: func(state, input, output interface{}) (bool, interface{}) {
		s := state.(relState)
		in := input.(linIn)
		out := output.(linOut)
		switch in.Kind {
		case "addref":
			if out.Code != 201 {
				return true, s
			}
			n := s.clone()
			n.Refs[in.Digest] = in.Subject
			return true, n
		case "rmref":
			if out.Code != 202 {
				return true, s
			}
			n := s.clone()
			delete(n.Refs, in.Digest)
			return true, n
		case "refs":
			want := linWantRefs(s.Refs, in)
			got := append([]string(nil), out.List...)
			sort.Strings(got)
			return out.Code == 200 && eqStrings(want, got), s
		}
		in2 := in
		in2.Subject = ""
		ok, ns := linStep(s.linState, in2, out)
		n := relState{linState: ns.(linState), Refs: s.Refs}
		return ok, n
	},
	Equal: func(a, b interface{}) bool { return a.(relState).key() == b.(relState).key() },
}

// relaxedExplains re-checks a history with artifact pushes / deletes split into their two steps.
func relaxedExplains(ops []porcupine.Operation) bool {
	var out []porcupine.Operation
	for _, o := range ops {
		in := o.Input.(linIn)
		if in.Subject != "" && (in.Kind == "putman" || in.Kind == "delman") {
			a, b := in, in
			if in.Kind == "putman" {
				b.Kind = "addref"
			} else {
				b.Kind = "rmref"
			}
			out = append(out, porcupine.Operation{ClientId: o.ClientId, Input: a, Call: o.Call, Output: o.Output, Return: o.Return})
			out = append(out, porcupine.Operation{ClientId: o.ClientId + 100, Input: b, Call: o.Call, Output: o.Output, Return: o.Return})
			continue
		}
		out = append(out, o)
	}
	return porcupine.CheckOperationsTimeout(relModel, out, 20*time.Second) == porcupine.Ok
}

var linModel = porcupine.Model{
	Init: func() interface{} { return linState{Tags: map[string]string{}, Mans: map[string]string{}} },
	Step: linStep,
	Equal: func(a, b interface{}) bool {
		return a.(linState).key() == b.(linState).key()
	},
	DescribeOperation: func(input, output interface{}) string {
		in, out := input.(linIn), output.(linOut)
		return fmt.Sprintf("%s(%s %s %.19s subj=%.19s %s) -> %d %.19s %v", in.Kind, in.Repo, in.Tag, in.Digest, in.Subject, in.Filter, out.Code, out.Digest, shortList(out.List))
	},
}

func shortList(l []string) []string {
	out := make([]string, len(l))
	for i, s := range l {
		if len(s) > 19 {
			s = s[:19]
		}
		out[i] = s
	}
	return out
}

// ---------------------------------------------------------------------------------------------
// client operations (no per-response model: the history is judged as a whole)

func (c *concRun) cPutMan(client int, repo string, o *Obj, tag string) {
	w := c.w
	ref := tag
	if ref == "" {
		ref = o.digest("")
	}
	d := o.digest("")
	view := parseManifest(o.data)
	in := linIn{Kind: "putman", Repo: repo, Tag: tag, Digest: d, Subject: view.subject}
	if tag != "" {
		if c.tagged[repo] == nil {
			c.tagged[repo] = map[string][]string{}
		}
		c.tagged[repo][tag] = append(c.tagged[repo][tag], d)
	}
	call := c.stamp()
	r := w.do(reqSpec{method: "PUT", path: "/v2/" + repo + "/manifests/" + ref, hdr: http.Header{"Content-Type": {o.mediaType()}}, body: o.data, repos: []string{repo}})
	c.record(client, in, call, linOut{Code: r.Code})
	if r.Code == 201 {
		if c.acked[repo] == nil {
			c.acked[repo] = map[string]bool{}
		}
		c.acked[repo][d] = true
		if tag != "" {
			if c.tagAck == nil {
				c.tagAck = map[string]bool{}
			}
			c.tagAck[repo+" "+tag] = true
		}
		if view.subject != "" {
			if c.subj[repo] == nil {
				c.subj[repo] = map[string]string{}
			}
			c.subj[repo][d] = view.subject
		}
		w.x.out.probe("conc-put-201")
	} else if !c.closing && !r.Panicked && !(w.lenientUpload5xx && r.is5xx()) {
		w.x.viol([]string{"C11"}, "conc.unexpected-status", fmt.Sprintf("PUT manifest -> %d", r.Code), fmt.Sprintf("concurrent PUT %s/manifests/%s of a complete manifest answered %d %v", repo, ref, r.Code, w.errCodes(r)))
	}
}

func (c *concRun) cDel(client int, repo, tag, digest, subject string) {
	w := c.w
	in := linIn{Kind: "deltag", Repo: repo, Tag: tag}
	ref := tag
	if tag == "" {
		in = linIn{Kind: "delman", Repo: repo, Digest: digest, Subject: subject}
		ref = digest
	}
	call := c.stamp()
	r := w.do(reqSpec{method: "DELETE", path: "/v2/" + repo + "/manifests/" + ref, repos: []string{repo}})
	c.record(client, in, call, linOut{Code: r.Code})
	if r.Code != 202 && r.Code != 404 && !c.closing && !r.Panicked {
		w.x.viol([]string{"C11"}, "conc.unexpected-status", fmt.Sprintf("DELETE manifest -> %d", r.Code), fmt.Sprintf("concurrent DELETE %s/manifests/%s answered %d", repo, ref, r.Code))
	}
}

func (c *concRun) cGet(client int, repo, tag, digest string) {
	w := c.w
	in := linIn{Kind: "gettag", Repo: repo, Tag: tag}
	ref := tag
	if tag == "" {
		in = linIn{Kind: "getman", Repo: repo, Digest: digest}
		ref = digest
	}
	call := c.stamp()
	r := w.do(reqSpec{method: "GET", path: "/v2/" + repo + "/manifests/" + ref, hdr: http.Header{"Accept": {mtOCIManifest, mtOCIIndex, mtDockManifest, mtDockList}}, repos: []string{repo}})
	c.record(client, in, call, linOut{Code: r.Code, Digest: r.H.Get("Docker-Content-Digest")})
	if want, ok := c.stable[repo+" "+tag]; ok && tag != "" && !c.closing && !r.Panicked {
		// a tag the prologue established and no client pushes, deletes or removes the manifest of: every order of the
		// concurrent requests leaves it alone
		if r.Code != 200 || r.H.Get("Docker-Content-Digest") != want {
			props := c.speaks("C02", "C03")
			what := "untouched tag"
			if c.cold {
				props = c.speaks("C02", "C03", "C10")
				what = "untouched tag after a restart"
			}
			w.x.viol(props, "conc.stable-read", what, fmt.Sprintf("%s: tag %s -> %s was established before the concurrent phase and no client touches it; a concurrent GET answered %d %s", repo, tag, want, r.Code, r.H.Get("Docker-Content-Digest")))
		}
		w.x.out.probe("conc-stable-read")
	}
}

// cBlobRead reads a blob the prologue uploaded and a permanently tagged image references: nothing a client or a
// collection does may remove it, so every order of the concurrent requests answers 200 with the bytes.
func (c *concRun) cBlobRead(client int, repo string, o *Obj) {
	w := c.w
	if !c.stableBlob[repo+" "+o.digest("")] {
		return
	}
	method := "GET"
	if client%2 == 1 {
		method = "HEAD"
	}
	r := w.do(reqSpec{method: method, path: "/v2/" + repo + "/blobs/" + o.digest(""), repos: []string{repo}})
	if c.closing || r.Panicked {
		return
	}
	if r.Code != 200 || (method == "GET" && !bytes.Equal(r.Body, o.data)) {
		props, what := c.speaks("C02"), "blob of a tagged image"
		if c.cold {
			props, what = c.speaks("C02", "C10"), "blob of a tagged image after a restart"
		}
		w.x.viol(props, "conc.stable-read", what, fmt.Sprintf("%s: blob %s was uploaded before the concurrent phase and is referenced by a tagged image no client touches; a concurrent %s answered %d (%d bytes)", repo, o.digest(""), method, r.Code, len(r.Body)))
	}
	w.x.out.probe("conc-stable-read")
}

func (c *concRun) cTags(client int, repo string) {
	w := c.w
	call := c.stamp()
	r, tags, ok := w.tagPage(repo, "")
	code := r.Code
	if !ok && code == 200 {
		code = 599
	}
	c.record(client, linIn{Kind: "tags", Repo: repo}, call, linOut{Code: code, List: tags})
}

func (c *concRun) cRefs(client int, repo, subject, filter string) {
	w := c.w
	call := c.stamp()
	q := ""
	if filter != "" {
		q = "artifactType=" + url.QueryEscape(filter)
	}
	r, descs, ok := w.refPage(repo, subject, q)
	code := r.Code
	if !ok && code == 200 {
		code = 599
	}
	var l []string
	for _, d := range descs {
		l = append(l, d.Digest)
	}
	c.record(client, linIn{Kind: "refs", Repo: repo, Subject: subject, Filter: filter}, call, linOut{Code: code, List: l})
}

// cUpload pushes a blob through a session, in several requests and Write calls (interference for C11, workload for C12).
func (c *concRun) cUpload(client int, repo string, o *Obj, op Op) {
	w := c.w
	r := w.do(reqSpec{method: "POST", path: "/v2/" + repo + "/blobs/uploads/", repos: []string{repo}})
	if r.Code != 202 {
		return
	}
	loc := r.H.Get("Location")
	data := o.data
	pos := 0
	for _, n := range op.Chunks {
		if pos+n > len(data) {
			n = len(data) - pos
		}
		u, err := url.Parse(loc)
		if err != nil {
			return
		}
		rs := reqSpec{method: "PATCH", path: u.EscapedPath(), query: u.RawQuery, body: data[pos : pos+n], repos: []string{repo}, sleepMs: op.Ms}
		if op.B > 0 {
			rs.pieces = []int{op.B, op.B, op.B}
		}
		r = w.do(rs)
		if r.Code != 202 {
			// expired, evicted or closed underneath us: fine - where that can happen at all
			if !w.lenientUpload5xx && !c.closing && !w.closed && op.S == "" && op.A == 0 && op.Ms == 0 && hasCode(w.errCodes(r), "BLOB_UPLOAD_UNKNOWN") {
				w.x.viol([]string{"C11", "C08"}, "conc.session-lost", "PATCH", fmt.Sprintf("%s: a session that was opened a moment ago, cannot have expired and cannot have been evicted answers %d BLOB_UPLOAD_UNKNOWN to its first chunk", repo, r.Code))
			}
			return
		}
		loc = r.H.Get("Location")
		pos += n
		if op.A > 0 {
			simrt.Sleep(time.Duration(op.A) * time.Millisecond)
		}
	}
	u, err := url.Parse(loc)
	if err != nil {
		return
	}
	q := u.Query()
	q.Set("digest", digestOf("sha256", data))
	var body []byte
	if pos < len(data) {
		body = data[pos:]
	}
	switch op.S {
	case "cancel":
		w.do(reqSpec{method: "DELETE", path: u.EscapedPath(), repos: []string{repo}})
		return
	case "abandon":
		return
	}
	r = w.do(reqSpec{method: "PUT", path: u.EscapedPath(), query: q.Encode(), body: body, repos: []string{repo}})
	if r.Code == 201 {
		if c.uploaded == nil {
			c.uploaded = map[string]map[string]bool{}
		}
		if c.uploaded[repo] == nil {
			c.uploaded[repo] = map[string]bool{}
		}
		c.uploaded[repo][digestOf("sha256", data)] = true
		w.x.out.probe("conc-upload-201")
	}
}

// cCancelled issues a request whose context is cancelled after a simulated delay (it may be waiting for a collection then).
func (c *concRun) cCancelled(client int, repo string, op Op) {
	w := c.w
	ctx, cancel := context.WithCancel(context.Background())
	fired := false
	tm := simrt.AfterFunc(time.Duration(op.Ms)*time.Microsecond, func() { fired = true; cancel() })
	start := time.Now()
	r := w.do(reqSpec{method: "GET", path: "/v2/" + repo + "/tags/list", repos: []string{repo}, ctx: ctx, abort: true, abortAt: 1 << 30})
	tm.Stop()
	cancel()
	if fired && r.is5xx() {
		w.x.out.probe("request-cancelled-while-waiting")
	}
	_ = start
}

// cSharedSession: several clients work on ONE upload session (a client that retries a chunk on a second connection, a
// proxy that duplicates a request). Nothing is claimed about which request wins; whatever becomes retrievable must hash
// to the digest it is served under (the generic oracle of every 2xx GET), which "getall" reads back.
func (c *concRun) cSharedSession(ci int, repo string, op Op) {
	w := c.w
	if c.shared == nil {
		c.shared = map[int]*sharedSess{}
	}
	ss := c.shared[op.Sess]
	switch op.Act {
	case "post":
		q := url.Values{}
		if op.Algo != "" {
			q.Set("digest-algorithm", op.Algo)
		}
		r := w.do(reqSpec{method: "POST", path: "/v2/" + repo + "/blobs/uploads/", query: q.Encode(), repos: []string{repo}})
		if r.Code == 202 {
			c.shared[op.Sess] = &sharedSess{loc: r.H.Get("Location")}
		}
	case "wait":
		// until the session has seen op.A successful chunks (bounded: the other client may have failed)
		// (polled at the pace of the request latency: the next request of this client then arrives at the same simulated
		// instant as the next request of the client that made the progress, and the scheduler decides who goes first)
		for i := 0; i < 1000 && (ss == nil || ss.chunks < op.A); i++ {
			simrt.Sleep(10 * time.Microsecond)
			ss = c.shared[op.Sess]
		}
	case "patch", "put":
		if ss == nil {
			return
		}
		u, err := url.Parse(ss.loc)
		if err != nil {
			return
		}
		if op.Act == "patch" {
			r := w.do(reqSpec{method: "PATCH", path: u.EscapedPath(), query: u.RawQuery, body: w.obj(op.Obj).data, repos: []string{repo}})
			if r.Code == 202 {
				ss.loc = r.H.Get("Location")
				ss.chunks++
			}
			return
		}
		// the declared digest: of the first object, or of both in order
		data := append([]byte{}, w.obj(op.Obj).data...)
		if op.S == "both" {
			data = append(data, w.obj(op.From).data...)
		}
		q := u.Query()
		q.Set("digest", digestOf(algoOrDefault(op.Algo2), data))
		r := w.do(reqSpec{method: "PUT", path: u.EscapedPath(), query: q.Encode(), repos: []string{repo}})
		if r.Code == 201 {
			w.x.out.probe("shared-session-completed")
		}
	case "getall":
		a, b := w.obj(op.Obj).data, w.obj(op.From).data
		for _, data := range [][]byte{a, b, append(append([]byte{}, a...), b...), append(append([]byte{}, b...), a...)} {
			for _, algo := range []string{"sha256", "sha512", "sha384"} {
				w.do(reqSpec{method: "GET", path: "/v2/" + repo + "/blobs/" + digestOf(algo, data), repos: []string{repo}})
			}
		}
	}
}

type sharedSess struct {
	loc    string
	chunks int
}

func (c *concRun) runClient(ci int, ops []Op) {
	w := c.w
	for _, op := range ops {
		if w.x.stop {
			return
		}
		repo := w.repoName(op.Repo)
		o := w.obj(op.Obj)
		switch op.K {
		case "man":
			c.cPutMan(ci, repo, o, op.Tag)
		case "del":
			if op.Mode == "tag" {
				c.cDel(ci, repo, op.Tag, "", "")
			} else {
				c.cDel(ci, repo, "", o.digest(""), parseManifest(o.data).subject)
			}
		case "get":
			if op.Mode == "tag" {
				c.cGet(ci, repo, op.Tag, "")
			} else {
				c.cGet(ci, repo, "", o.digest(""))
			}
		case "tags":
			c.cTags(ci, repo)
		case "refs":
			c.cRefs(ci, repo, o.digest(""), op.Filter)
		case "bget":
			c.cBlobRead(ci, repo, o)
		case "blob":
			c.cUpload(ci, repo, o, op)
		case "cancelget":
			c.cCancelled(ci, repo, op)
		case "mount":
			// cross-repository mount: one handler holds two repositories. The blob may be missing in the source
			// (the registry then opens a session, which the client cancels)
			d := o.digest("")
			if op.S == "missing" {
				d = digestOf("sha256", []byte("never pushed "+repo))
			}
			q := url.Values{}
			q.Set("mount", d)
			q.Set("from", w.repoName(op.From))
			r := w.do(reqSpec{method: "POST", path: "/v2/" + repo + "/blobs/uploads/", query: q.Encode(), repos: []string{repo, w.repoName(op.From)}})
			if r.Code == 202 {
				if u, err := url.Parse(r.H.Get("Location")); err == nil {
					w.do(reqSpec{method: "DELETE", path: u.EscapedPath(), repos: []string{repo}})
				}
			}
			w.x.out.probe("conc-mount")
		case "sx":
			c.cSharedSession(ci, repo, op)
		case "sleep":
			// (A: microseconds on top, may be negative: to meet a timer that was set some requests ago)
			if d := time.Duration(op.Ms)*time.Millisecond + time.Duration(op.A)*time.Microsecond; d > 0 {
				simrt.Sleep(d)
			}
		case "aligntick":
			// wake up at the very instant the collection ticker fires: who runs first is the scheduler's choice
			if f := w.k.freq(); f > 0 {
				el := time.Since(w.openedAt)
				if d := f - el%f + time.Duration(op.Ms)*time.Microsecond; d > 0 {
					simrt.Sleep(d)
				}
			}
		case "gc":
			_ = w.forceGC(repo)
		case "close":
			c.closing = true
			w.closing = true
			_ = w.close()
			w.x.out.probe("close-with-requests-in-flight")
		}
	}
}

// ---------------------------------------------------------------------------------------------
// engine

func engineConc(x *X) {
	p := x.p
	materialise(p.Objs)
	root := ""
	if p.Knobs.Store != "mem" {
		root = filepath.Join(x.root, "data")
		if err := os.MkdirAll(root, 0755); err != nil {
			x.out.Infra = err.Error()
			return
		}
	}
	w := newWorld(x, p.Knobs, root, p.Knobs.Store)
	w.served, _ = p.Extra["served"].(bool)
	w.open()
	// sequential prologue (client 0 of the plan), model-checked as usual
	for i, op := range p.Clients[0] {
		x.opIdx = i
		w.exec(op)
		if len(x.out.Viol) > 0 || x.stop {
			_ = w.close()
			x.finishConc(w, nil)
			return
		}
	}
	c := &concRun{w: w, acked: map[string]map[string]bool{}, tagged: map[string]map[string][]string{}, delMan: map[string]map[string]bool{},
		delTag: map[string]map[string]bool{}, subj: map[string]map[string]string{}}
	// what the prologue established is part of the history (as completed operations before everything else)
	for repo, mr := range w.m.repos {
		for _, d := range sortedKeys(mr.mans) {
			in := linIn{Kind: "putman", Repo: repo, Digest: d, Subject: mr.mans[d].view.subject}
			call := c.stamp()
			c.record(-1, in, call, linOut{Code: 201})
		}
		for _, t := range sortedKeys(mr.tags) {
			in := linIn{Kind: "putman", Repo: repo, Tag: t, Digest: mr.tags[t], Subject: mr.mans[mr.tags[t]].view.subject}
			call := c.stamp()
			c.record(-1, in, call, linOut{Code: 201})
		}
	}
	linAT = map[string]string{}
	for _, o := range p.Objs {
		if o.isManifest() {
			linAT[o.digest("")] = o.AT
		}
	}
	c.stable = map[string]string{}
	for repo, mr := range w.m.repos {
		for t, d := range mr.tags {
			c.stable[repo+" "+t] = d
		}
	}
	for _, ops := range p.Clients[1:] {
		for _, op := range ops {
			repo := w.repoName(op.Repo)
			switch {
			case op.K == "man" && op.Tag != "", op.K == "del" && op.Mode == "tag":
				delete(c.stable, repo+" "+op.Tag)
			case op.K == "del":
				for _, t := range sortedKeys(c.stable) {
					if strings.HasPrefix(t, repo+" ") && c.stable[t] == w.obj(op.Obj).digest("") {
						delete(c.stable, t)
					}
				}
			}
		}
	}
	c.stableBlob = map[string]bool{}
	for _, rt := range sortedKeys(c.stable) {
		repo, _, _ := strings.Cut(rt, " ")
		if mm := w.m.repos[repo].mans[c.stable[rt]]; mm != nil {
			for _, b := range mm.view.imgRefs {
				c.stableBlob[repo+" "+b] = true
			}
		}
	}
	for _, ops := range p.Clients[1:] {
		for _, op := range ops {
			repo := w.repoName(op.Repo)
			if op.K == "del" {
				if op.Mode == "tag" {
					if c.delTag[repo] == nil {
						c.delTag[repo] = map[string]bool{}
					}
					c.delTag[repo][op.Tag] = true
				} else {
					if c.delMan[repo] == nil {
						c.delMan[repo] = map[string]bool{}
					}
					c.delMan[repo][w.obj(op.Obj).digest("")] = true
				}
			}
		}
	}
	// liveness bound: generous in simulated time, handlers never sleep
	limit := 10*absDur(p.Knobs.freq()) + 3*absDur(p.Knobs.grace()) + 30*time.Second
	if f := p.Knobs.freq(); f <= 0 || f >= time.Second {
		limit += time.Hour
	}
	if um := p.Knobs.uploadMax(); (um > 0 && um < 100) || (p.Knobs.grace() > 0 && p.Knobs.grace() < time.Minute) {
		w.lenientUpload5xx = true // a session may expire or be evicted while a request on it is in flight
	}
	if ms, ok := p.Extra["live_ms"].(float64); ok {
		limit = time.Duration(ms) * time.Millisecond
	}
	// the workload's own think times and slow bodies are not hangs
	var planned time.Duration
	for _, ops := range p.Clients[1:] {
		var t time.Duration
		for _, op := range ops {
			switch op.K {
			case "sleep":
				t += time.Duration(op.Ms) * time.Millisecond
			case "blob":
				t += time.Duration(len(op.Chunks)) * (time.Duration(op.A)*time.Millisecond + 4*time.Duration(op.Ms)*time.Millisecond)
			}
		}
		if t > planned {
			planned = t
		}
	}
	limit += 2 * planned
	if cold, _ := p.Extra["cold"].(bool); cold && w.root != "" && !w.closed {
		// the clients meet a server that has just been started on the directory: no repository is open yet
		w.settle()
		_ = w.close()
		w.settle()
		if cm, _ := p.Extra["coldmem"].(bool); cm && w.k.Store == "dir" {
			// … a memory store layered over the directory the prologue filled
			w.k.Store, w.name = "memdir", "memdir"
			x.out.probe("cold-start-mem-over-dir")
		}
		w.open()
		c.cold = true
		x.out.probe("cold-start")
	}
	if p.Knobs.FaultRate > 0 && w.root != "" {
		// disk errors during the concurrent phase only (the preparation and the final Close meet healthy storage)
		fs := x.sim.FS
		fs.Rate, fs.FaultKinds, fs.FaultUnder = p.Knobs.FaultRate, p.Knobs.FaultKinds, x.root
		defer func() { fs.Rate = 0 }()
	}
	// a client that stalls in the middle of a request body for as long as the others are at work: its own request cannot
	// finish, everybody else's must (its session may be evicted or expire meanwhile)
	var release, stallerDone simrt.WaitGroup
	staller, _ := p.Extra["staller"].(bool)
	if staller {
		release.Add(1)
		stallerDone.Add(1)
		repo := w.repoName(0)
		x.sim.GoNamed("staller", "client", func() {
			defer stallerDone.Done()
			q := w.quiet
			r := w.do(reqSpec{method: "POST", path: "/v2/" + repo + "/blobs/uploads/", repos: []string{repo}})
			_ = q
			if r.Code != 202 {
				return
			}
			u, err := url.Parse(r.H.Get("Location"))
			if err != nil {
				return
			}
			body := []byte(strings.Repeat("stalled upload ", 20))
			method := "PATCH"
			if p.Seed%2 == 0 {
				method = "PUT"
				qq := u.Query()
				qq.Set("digest", digestOf("sha256", body))
				u.RawQuery = qq.Encode()
			}
			x.out.probe("stalled-client")
			w.do(reqSpec{method: method, path: u.EscapedPath(), query: u.RawQuery, hdr: http.Header{"Content-Type": {"application/octet-stream"}}, body: body, pieces: []int{7}, stall: &release, repos: []string{repo}})
		})
		simrt.Sleep(50 * time.Microsecond) // (the stalled request is under way when the others start)
	}
	var wg simrt.WaitGroup
	nc := len(p.Clients) - 1
	c.done = make([]bool, nc)
	wg.Add(nc)
	for ci := 0; ci < nc; ci++ {
		ci := ci
		x.sim.GoNamed(fmt.Sprintf("client%d", ci), "client", func() {
			defer func() {
				c.done[ci] = true
				wg.Done()
			}()
			c.runClient(ci, p.Clients[ci+1])
		})
	}
	wd := simrt.AfterFunc(limit, func() {
		var stuck []string
		for i, d := range c.done {
			if !d {
				stuck = append(stuck, fmt.Sprintf("client%d", i))
			}
		}
		x.viol([]string{"C12"}, "hang.stall", stallSig(x.sim.Unfinished()), fmt.Sprintf("%s of simulated time after the workload started, %v have not finished; unfinished tasks:\n%s", limit, stuck, strings.Join(x.sim.Dump(), "\n")))
		x.sim.Abort("liveness: clients stuck")
	})
	wg.Wait()
	wd.Stop()
	x.sim.FS.Rate = 0
	if staller {
		// the stalled client goes away; its request ends
		release.Done()
		wd3 := simrt.AfterFunc(limit, func() {
			x.viol([]string{"C12"}, "hang.stall", "request of a client that went away: "+stallSig(x.sim.Unfinished()), fmt.Sprintf("%s after the stalled client closed its connection its request has not returned:\n%s", limit, strings.Join(x.sim.Dump(), "\n")))
			x.sim.Abort("liveness: stalled request stuck")
		})
		stallerDone.Wait()
		wd3.Stop()
	}
	x.opIdx = -1
	if !c.closing {
		w.settle()
		c.quiescentChecks()
	}
	c.linearizable()
	if os.Getenv("VERIF_DUMPINDEX") != "" && !w.closed {
		for _, repo := range p.Repos {
			if r, err := w.srv.store.RepoGet(context.Background(), repo); err == nil {
				idx, _ := r.IndexGet()
				r.Done()
				for _, d := range idx.Manifests {
					fmt.Printf("INDEX %s %s %s %v\n", repo, d.Digest.String()[:19], d.MediaType, d.Annotations)
				}
			}
		}
	}
	// Close must return
	closed := false
	wd2 := simrt.AfterFunc(limit, func() {
		if !closed {
			x.viol([]string{"C12"}, "hang.close", stallSig(x.sim.Unfinished()), fmt.Sprintf("Close did not return within %s of simulated time:\n%s", limit, strings.Join(x.sim.Dump(), "\n")))
			x.sim.Abort("liveness: close stuck")
		}
	})
	func() {
		defer func() { _ = recover() }()
		_ = w.close()
	}()
	closed = true
	wd2.Stop()
	x.finishConc(w, c)
}

func absDur(d time.Duration) time.Duration {
	if d < 0 {
		return 0
	}
	return d
}

func (x *X) finishConc(w *World, c *concRun) {
	x.out.NonTrivial = x.sim.Choices > 5 && x.out.Requests > 5
	nops := 0
	for _, cl := range x.p.Clients[1:] {
		nops += len(cl)
	}
	x.mix(x.sim.TraceHash)
	b, _ := json.Marshal(x.p.Clients[1:])
	if len(b) > 900 {
		b = append(b[:900], []byte(`…"`)...)
		b = []byte(fmt.Sprintf("%q", string(b)))
	}
	x.out.Sample = fmt.Sprintf(`{"seed":%d,"profile":%q,"store":%q,"strategy":%q,"clients":%d,"concurrent_ops":%d,"ops":%s,"steps":%d,"choices":%d}`,
		x.p.Seed, x.p.Profile, x.p.Knobs.Store, x.p.Strat.Kind, len(x.p.Clients)-1, nops, string(b), x.sim.Steps, x.sim.Choices)
}

// quiescentChecks: nothing acknowledged was lost, contended tags resolve to one of their candidates.
func (c *concRun) quiescentChecks() {
	w := c.w
	q := w.quiet
	w.quiet = true
	defer func() { w.quiet = q }()
	for _, repo := range w.x.p.Repos {
		for _, d := range sortedKeys(c.acked[repo]) {
			if c.delMan[repo][d] {
				continue
			}
			r := w.do(reqSpec{method: "HEAD", path: "/v2/" + repo + "/manifests/" + d, hdr: http.Header{"Accept": {mtOCIManifest, mtOCIIndex, mtDockManifest, mtDockList}}, repos: []string{repo}})
			if r.Code != 200 {
				w.x.viol(c.speaks("C02"), "conc.lost-update", "manifest", fmt.Sprintf("%s: manifest %s was acknowledged, nobody deleted it, and it answers %d once everything is quiet", repo, d, r.Code))
				return
			}
		}
		for _, t := range sortedKeys(c.tagged[repo]) {
			r := w.do(reqSpec{method: "HEAD", path: "/v2/" + repo + "/manifests/" + t, hdr: http.Header{"Accept": {mtOCIManifest, mtOCIIndex, mtDockManifest, mtDockList}}, repos: []string{repo}})
			got := r.H.Get("Docker-Content-Digest")
			if r.Code == 200 {
				ok := false
				for _, d := range c.tagged[repo][t] {
					if d == got {
						ok = true
					}
				}
				if !ok {
					w.x.viol(c.speaks("C03"), "conc.tag-foreign", "tag resolves to a manifest never pushed under it", fmt.Sprintf("%s: tag %s resolves to %s, pushed under it: %v", repo, t, got, c.tagged[repo][t]))
					return
				}
			} else if !c.delTag[repo][t] {
				// nobody deletes the tag; it may vanish only with a manifest it pointed to at some moment: if any candidate is
				// deleted by digest some sequential order removes the tag (the exact orders are porcupine's business)
				mayVanish := false
				anyAcked := false
				for _, d := range c.tagged[repo][t] {
					if c.delMan[repo][d] {
						mayVanish = true
					}
					if c.acked[repo][d] && c.tagAck[repo+" "+t] {
						anyAcked = true
					}
				}
				if !mayVanish && anyAcked {
					w.x.viol(c.speaks("C02", "C03"), "conc.lost-update", "tag", fmt.Sprintf("%s: tag %s was pushed (candidates %v), nobody deleted it or all of its manifests, and it answers %d", repo, t, c.tagged[repo][t], r.Code))
					return
				}
			}
		}
		if w.k.referrerOn() {
			bySubj := map[string][]string{}
			for d, s := range c.subj[repo] {
				if !c.delMan[repo][d] {
					bySubj[s] = append(bySubj[s], d)
				}
			}
			// the other half: whatever a listing names is a manifest that can be read (an update that was torn between the
			// index entry and the referrers entry leaves a listed artifact that answers 404)
			allSubj := map[string]bool{}
			for _, s := range c.subj[repo] {
				allSubj[s] = true
			}
			for _, s := range sortedKeys(allSubj) {
				_, descs, ok := w.refPage(repo, s, "")
				if !ok {
					continue
				}
				for _, d := range descs {
					r := w.do(reqSpec{method: "HEAD", path: "/v2/" + repo + "/manifests/" + d.Digest, hdr: map[string][]string{"Accept": {mtOCIManifest, mtOCIIndex, mtDockManifest, mtDockList}}, repos: []string{repo}})
					if r.Code != 200 {
						w.x.viol(c.speaks("C07"), "conc.torn-update", "listed referrer is not a readable manifest", fmt.Sprintf("%s: the referrers of %s list %s, which answers %d once everything is quiet", repo, s, d.Digest, r.Code))
						return
					}
				}
			}
			for _, s := range sortedKeys(bySubj) {
				_, descs, ok := w.refPage(repo, s, "")
				got := map[string]bool{}
				for _, d := range descs {
					got[d.Digest] = true
				}
				sort.Strings(bySubj[s])
				for _, d := range bySubj[s] {
					if !ok || !got[d] {
						w.x.viol(c.speaks("C07"), "conc.lost-update", "referrer", fmt.Sprintf("%s: artifact %s (subject %s) was acknowledged, nobody deleted it, and the referrers listing lacks it once everything is quiet (listed %d of %d)", repo, d, s, len(got), len(bySubj[s])))
						return
					}
				}
			}
		}
	}
	// an acknowledged image is complete: what it names is there (a push is acknowledged only if its config and layers
	// exist, and what a present manifest names is retained; the workload never deletes blobs)
	for _, repo := range w.x.p.Repos {
		for _, d := range sortedKeys(c.acked[repo]) {
			if c.delMan[repo][d] {
				continue
			}
			r := w.do(reqSpec{method: "GET", path: "/v2/" + repo + "/manifests/" + d, hdr: http.Header{"Accept": {mtOCIManifest, mtOCIIndex, mtDockManifest, mtDockList}}, repos: []string{repo}})
			if r.Code != 200 {
				continue
			}
			for _, ref := range parseManifest(r.Body).imgRefs {
				if !validDigest(ref) {
					continue
				}
				rb := w.do(reqSpec{method: "HEAD", path: "/v2/" + repo + "/blobs/" + ref, repos: []string{repo}})
				if rb.Code != 200 {
					w.x.viol(c.speaks("C04", "C05"), "conc.incomplete-image", "config or layer of an acknowledged image is missing", fmt.Sprintf("%s: manifest %s was acknowledged and is served, nobody deleted anything it names, and %s answers %d once everything is quiet", repo, d, ref, rb.Code))
					return
				}
			}
		}
	}
	// acknowledged uploads are there (only where no collection can have taken an unreferenced blob)
	if !w.naturalGC() {
		for _, repo := range sortedKeys(c.uploaded) {
			for _, d := range sortedKeys(c.uploaded[repo]) {
				r := w.do(reqSpec{method: "HEAD", path: "/v2/" + repo + "/blobs/" + d, repos: []string{repo}})
				if r.Code != 200 {
					w.x.viol(c.speaks("C02"), "conc.lost-update", "blob", fmt.Sprintf("%s: the upload of %s was acknowledged, nothing can have collected it, and it answers %d once everything is quiet", repo, d, r.Code))
					return
				}
			}
		}
	}
	w.x.out.probe("conc-quiescent-checked")
}

// linearizable checks the recorded history per repository with porcupine.
func (c *concRun) linearizable() {
	w := c.w
	if c.closing {
		return
	}
	byRepo := map[string][]porcupine.Operation{}
	for _, h := range c.hist {
		byRepo[h.in.Repo] = append(byRepo[h.in.Repo], porcupine.Operation{ClientId: h.client + 1, Input: h.in, Call: h.call, Output: h.out, Return: h.ret})
	}
	for _, repo := range sortedKeys(byRepo) {
		ops := byRepo[repo]
		if len(ops) > 60 {
			w.x.out.Inconcl++
			continue
		}
		res := porcupine.CheckOperationsTimeout(linModel, ops, 20*time.Second)
		switch res {
		case porcupine.Illegal:
			var lines []string
			kinds := map[string]bool{}
			for _, h := range c.hist {
				if h.in.Repo == repo && h.client >= 0 {
					lines = append(lines, fmt.Sprintf("c%d [%d,%d] %s", h.client, h.call, h.ret, linModel.DescribeOperation(h.in, h.out)))
				}
			}
			// signature: which kinds of operation overlap in the failing history (coarse, stable)
			for i, a := range c.hist {
				for _, b := range c.hist[i+1:] {
					if a.in.Repo == repo && b.in.Repo == repo && a.client != b.client && a.client >= 0 && b.client >= 0 && a.call < b.ret && b.call < a.ret {
						k := []string{linKind(a.in), linKind(b.in)}
						sort.Strings(k)
						kinds[k[0]+"||"+k[1]] = true
					}
				}
			}
			sig := linSig(kinds)
			if relaxedExplains(ops) {
				sig = "artifact update is two steps (index entry, referrers entry): a concurrent request sees one without the other"
			}
			w.x.viol([]string{"C11"}, "lin.illegal", sig, fmt.Sprintf("%s: no sequential order of the %d recorded operations explains the answers (overlapping kinds: %v):\n%s", repo, len(ops), sortedKeys(kinds), strings.Join(lines, "\n")))
			return
		case porcupine.Unknown:
			w.x.out.Inconcl++
		default:
			w.x.out.probe("history-linearizable")
		}
	}
}

func linKind(in linIn) string {
	if in.Kind == "putman" && in.Subject != "" {
		return "putartifact"
	}
	return in.Kind
}

func linSig(kinds map[string]bool) string {
	// the most specific overlapping pair that involves a write
	pri := []string{"putartifact||putartifact", "delman||putartifact", "putartifact||refs", "putman||putman", "delman||putman", "deltag||putman", "delman||delman"}
	for _, p := range pri {
		if kinds[p] {
			return "overlap " + p
		}
	}
	ks := sortedKeys(kinds)
	if len(ks) > 3 {
		ks = ks[:3]
	}
	return "overlap " + strings.Join(ks, ",")
}

// ---------------------------------------------------------------------------------------------
// planners

type concGen struct {
	*gen
	cfg     int
	anchor  int
	imgs    []int
	arts    []int
	subject int
	blobs   []int
}

// concSetup builds the universe and the sequential prologue: every blob any concurrent manifest needs is already
// present and referenced by a permanently tagged anchor image, so no collection may remove anything involved.
func concSetup(seed uint64, tier string) *concGen {
	g := newGen(seed, tier)
	g.p.Engine = "conc"
	cg := &concGen{gen: g}
	g.repos(g.r.between(1, 2))
	cfg := g.newBlob(g.r.between(2, 60))
	lay := g.newBlob(g.r.between(0, 200))
	mk := func(subject int, n int) int {
		o := &Obj{Kind: "image", Subject: subject, Config: cfg, Layers: []int{lay}, MT: mtOCIManifest, Annot: map[string]string{"n": fmt.Sprint(n)}}
		if subject >= 0 {
			o.AT = g.r.str("application/vnd.example.sig", "application/vnd.example.sbom")
		}
		g.p.Objs = append(g.p.Objs, o)
		return len(g.p.Objs) - 1
	}
	cg.cfg = cfg
	cg.anchor = mk(-1, 0)
	cg.subject = mk(-1, 1)
	for i := 0; i < g.r.between(2, 5); i++ {
		cg.imgs = append(cg.imgs, mk(-1, 10+i))
	}
	for i := 0; i < g.r.between(2, 5); i++ {
		cg.arts = append(cg.arts, mk(cg.subject, 100+i))
	}
	for i := 0; i < 3; i++ {
		cg.blobs = append(cg.blobs, g.newBlob(g.r.pick(10, 300, 3000)))
	}
	for r := range g.p.Repos {
		g.add(Op{K: "blob", Repo: r, Obj: cfg, Mode: "mono", Sess: g.nextSess()})
		g.add(Op{K: "blob", Repo: r, Obj: lay, Mode: "mono", Sess: g.nextSess()})
		g.add(Op{K: "man", Repo: r, Obj: cg.anchor, Tag: "anchor"})
		g.add(Op{K: "man", Repo: r, Obj: cg.subject, Tag: "subject"})
	}
	return cg
}

func (cg *concGen) clientOps(n int, mix string) []Op {
	g := cg.gen
	var ops []Op
	tags := []string{"t1", "t2", "shared"}
	for i := 0; i < n; i++ {
		repo := g.r.intn(g.nrepos())
		switch g.r.intn(14) {
		case 0, 1, 2:
			ops = append(ops, Op{K: "man", Repo: repo, Obj: cg.imgs[g.r.intn(len(cg.imgs))], Tag: g.r.str("", tags[0], tags[1], tags[2], tags[2])})
		case 3, 4, 5:
			ops = append(ops, Op{K: "man", Repo: repo, Obj: cg.arts[g.r.intn(len(cg.arts))], Tag: g.r.str("", "", "art")})
		case 6:
			ops = append(ops, Op{K: "del", Mode: "tag", Repo: repo, Tag: tags[g.r.intn(len(tags))]})
		case 7:
			if mix != "no-delete" {
				ops = append(ops, Op{K: "del", Mode: "man", Repo: repo, Obj: g.r.pick(cg.imgs[0], cg.arts[0], cg.imgs[len(cg.imgs)-1])})
			}
		case 8:
			ops = append(ops, Op{K: "get", Mode: "tag", Repo: repo, Tag: g.r.str(tags[0], tags[1], tags[2], "anchor", "subject")})
		case 9:
			ops = append(ops, Op{K: "get", Mode: "man", Repo: repo, Obj: g.r.pick(cg.imgs[0], cg.arts[0], cg.imgs[len(cg.imgs)-1])})
		case 10:
			if g.r.chance(30) {
				ops = append(ops, Op{K: "bget", Repo: repo, Obj: cg.cfg})
				break
			}
			ops = append(ops, Op{K: "tags", Repo: repo})
		case 11, 12:
			ops = append(ops, Op{K: "refs", Repo: repo, Obj: cg.subject, Filter: g.r.str("", "", "", "application/vnd.example.sig", "application/vnd.example.sbom")})
		default:
			ops = append(ops, Op{K: "blob", Repo: repo, Obj: cg.blobs[g.r.intn(len(cg.blobs))], Chunks: []int{g.r.between(1, 200), g.r.between(0, 200)}, B: g.r.pick(0, 0, 7, 50)})
		}
	}
	return ops
}

func (cg *concGen) concKnobs(gc bool) {
	g := cg.gen
	k := &g.p.Knobs
	g.storeKnob("dir", "dir", "mem")
	if gc {
		// pure interference: nothing the workload touches is collectable
		k.GCFreqMs = int64(g.r.pick(1, 5, 50, 1000))
		// (without a grace period a manifest blob is collectable between the store calls of its own push: only the
		// wait for requests in flight protects it)
		k.GCGraceMs = int64(g.r.pick(0, 3600000, -1))
		k.Untagged = g.r.pick(-1, 0)
		k.RefDangling, k.RefWithSubj = 0, g.r.pick(-1, 0, 1)
	}
}

func (cg *concGen) finishConc(prop string, clients [][]Op) *Plan {
	g := cg.gen
	g.p.Clients = append([][]Op{g.ops}, clients...)
	g.p.Strat = g.strategy()
	if g.p.Strat.Kind == "starve" {
		g.p.Strat.Class = g.r.str("ticker", "timer", "go", "client")
	}
	return g.p
}

func planC11(prop string, seed uint64, tier string, idx int) *Plan {
	cg := concSetup(seed, tier)
	g := cg.gen
	g.p.Profile = "concurrent registry operations"
	gc := idx%2 == 1
	if gc {
		g.p.Profile = "concurrent registry operations + background collection"
	}
	cg.concKnobs(gc)
	nc := g.r.between(2, 4)
	var clients [][]Op
	for c := 0; c < nc; c++ {
		ops := cg.clientOps(g.scale(g.r.between(3, 8)), "")
		if gc && g.r.chance(60) {
			// a push that arrives at the very instant a collection tick fires (the request latency is 10µs): the pass and the
			// handler are runnable together and the scheduler interleaves their store calls
			var out []Op
			done := false
			for _, op := range ops {
				if op.K == "man" && !done && g.r.chance(50) {
					out = append(out, Op{K: "aligntick", Ms: -10})
					done = true
				}
				out = append(out, op)
			}
			ops = out
		}
		clients = append(clients, ops)
	}
	if !gc && g.r.chance(50) {
		// a repository nobody has touched yet: the first requests to it arrive together
		g.storeKnob("dir", "mem", "mem", "memdir")
		g.p.Repos = append(g.p.Repos, "fresh/new")
		fr := len(g.p.Repos) - 1
		g.p.Profile += ", first requests to a new repository"
		for c := range clients {
			first := Op{K: "blob", Repo: fr, Obj: cg.blobs[g.r.intn(len(cg.blobs))], Chunks: []int{g.r.between(1, 200), g.r.between(0, 200)}}
			if g.r.chance(70) {
				clients[c] = append([]Op{first}, clients[c]...)
			}
			if g.r.chance(50) {
				clients[c] = append(clients[c], Op{K: "blob", Repo: fr, Obj: cg.blobs[g.r.intn(len(cg.blobs))], Chunks: []int{g.r.between(1, 200)}})
			}
		}
	}
	return coldStart(cg.finishConc(prop, clients), seed)
}

func planC12(prop string, seed uint64, tier string, idx int) *Plan {
	if idx%15 == 14 && prop == "C12" {
		// opening legacy layouts: the conversion runs inside the first request that loads the index, holding the repository
		p := planC17(prop, seed, tier, idx)
		p.Profile = "liveness: first requests to layouts that need a referrers conversion"
		return p
	}
	cg := concSetup(seed, tier)
	g := cg.gen
	g.p.Profile = "liveness: uploads, expiry, eviction, collection, cancel, close"
	k := &g.p.Knobs
	g.storeKnob("dir", "dir", "mem")
	k.UploadMax = g.r.pick(1, 2, 2, 3, -1)
	k.GCGraceMs = int64(g.r.pick(5, 50, 1000, 0))
	k.GCFreqMs = int64(g.r.pick(1, 5, 50, 1000, -1))
	k.Untagged = g.r.pick(-1, 0)
	if f := k.freq(); f > 0 && k.grace() > 500*f {
		k.GCGraceMs = f.Milliseconds() * int64(g.r.pick(5, 50, 400)) // keep the number of ticks per run bounded
	}
	grace := k.grace().Milliseconds()
	nc := g.r.between(2, 4)
	var clients [][]Op
	for c := 0; c < nc; c++ {
		var ops []Op
		n := g.scale(g.r.between(3, 8))
		for i := 0; i < n; i++ {
			repo := g.r.intn(g.nrepos())
			switch g.r.intn(12) {
			case 0, 1, 2, 3, 4:
				op := Op{K: "blob", Repo: repo, Obj: cg.blobs[g.r.intn(len(cg.blobs))], Chunks: []int{g.r.between(1, 100), g.r.between(0, 100), g.r.between(0, 100)}, B: g.r.pick(0, 5, 40)}
				if g.r.chance(40) {
					op.A = int(grace * int64(g.r.pick(3, 8, 12, 25)) / 10) // think time around the grace period: expiry lands between requests
				}
				if g.r.chance(25) {
					op.Ms = grace * int64(g.r.pick(3, 8, 12)) / 10 / 3 // slow body: expiry lands inside a request
					if op.B == 0 {
						op.B = 10
					}
				}
				op.S = g.r.str("", "", "", "cancel", "abandon")
				ops = append(ops, op)
				if op.S == "abandon" && grace > 0 && g.r.chance(60) {
					// the next upload to the repository starts at the very moment the abandoned session expires
					ops = append(ops, Op{K: "sleep", Ms: grace, A: g.r.pick(-40, -30, -25, -20, -15, -10, -5, 0)},
						Op{K: "blob", Repo: repo, Obj: cg.blobs[g.r.intn(len(cg.blobs))], Chunks: []int{g.r.between(1, 100)}, S: g.r.str("", "abandon")})
				}
			case 5:
				ops = append(ops, Op{K: "cancelget", Repo: repo, Ms: int64(g.r.pick(1, 5, 20, 100, 1000))})
			case 6:
				ops = append(ops, Op{K: "gc", Repo: repo})
			case 7:
				ops = append(ops, Op{K: "sleep", Ms: int64(g.r.pick(1, int(grace/2)+1, int(grace)+1, int(grace*2)+1))})
			case 8:
				if g.r.chance(50) {
					ops = append(ops, Op{K: "mount", Repo: repo, From: g.r.intn(g.nrepos()), Obj: cg.blobs[g.r.intn(len(cg.blobs))], S: g.r.str("", "missing", "missing")})
				} else {
					ops = append(ops, Op{K: "man", Repo: repo, Obj: cg.imgs[g.r.intn(len(cg.imgs))], Tag: g.r.str("", "t1")})
				}
			default:
				ops = append(ops, cg.clientOps(1, "")...)
			}
		}
		clients = append(clients, ops)
	}
	if idx%6 == 1 && idx%5 != 4 && prop == "C12" { // (not with Close or Shutdown in flight: those wait for the stalled request, rightly)
		g.p.Extra["staller"] = true
		g.p.Profile += " + a client that stalls mid-body"
		if k.UploadMax < 0 || k.UploadMax > 2 {
			k.UploadMax = g.r.pick(1, 2)
		}
	}
	if idx%7 == 3 && prop == "C12" && k.Store == "dir" {
		// disk errors (mkdir, rename, remove, create fail for single operations) in the middle of the concurrent workload:
		// a request that fails must leave every lock it took, whoever comes next must not wait for ever
		g.p.Profile += " + disk errors"
		k.FaultRate = g.r.pick(30, 100, 300)
		k.FaultKinds = [][]string{{"meta"}, {"write", "meta"}, {"read", "write", "meta"}}[g.r.intn(3)]
	}
	if idx%5 == 4 {
		// Close at an arbitrary point with requests in flight (liveness only)
		g.p.Profile += " (close in flight)"
		if prop == "C12" && g.r.chance(50) {
			// the server runs behind Server.Run and is ended by Server.Shutdown: requests in flight are waited for, a
			// connection that was open still carries one request
			g.p.Extra["served"] = true
			g.p.Profile += ", Run/Shutdown"
			if g.r.chance(50) {
				k.RateLimit = 1000000 // (the limiter's lock is on the path of every request)
			}
		}
		ms := int64(g.r.pick(0, 1, 3, 20))
		if f := k.freq(); f > 0 && g.r.chance(50) {
			// Close and a collection tick become due at the same instant
			clients = append(clients, []Op{{K: "sleep", Ms: ms}, {K: "aligntick", Ms: int64(g.r.pick(0, 0, 1))}, {K: "close"}})
		} else {
			clients = append(clients, []Op{{K: "sleep", Ms: ms}, {K: "close"}})
		}
	}
	return coldStart(cg.finishConc(prop, clients), seed)
}

// coldStart lets a third of the directory-store plans restart the server between the preparation and the concurrent phase.
func coldStart(p *Plan, seed uint64) *Plan {
	if p.Knobs.Store == "dir" && splitmix(seed^0xc01d)%3 == 0 {
		p.Extra["cold"] = true
		if p.Knobs.GCFreqMs < 0 && splitmix(seed^0xc01e)%3 == 0 {
			p.Extra["coldmem"] = true
		}
	}
	return p
}

// concSlice is the part of the sequential properties' checks that runs their statement over concurrent histories (the
// statements of C02, C03, C07 and C10 hold for every history; what is checked is what no order of the requests can
// explain: see quiescentChecks and conc.stable-read).
func concSlice(prop string, seed uint64, tier string, idx int) *Plan {
	variant := 0
	if prop == "C04" {
		variant = 1 // with the collection ticker and pushes that arrive at the instant of a tick: is what an acknowledged image names still there?
	}
	p := planC11(prop, seed, tier, variant)
	p.Profile += " (concurrent histories for " + prop + ")"
	if p.Knobs.Store == "dir" {
		switch prop {
		case "C10":
			// the first requests a restarted server gets arrive together, and most of them are reads of what was there before
			p.Extra["cold"] = true
			delete(p.Extra, "coldmem")
			for c := 1; c < len(p.Clients); c++ {
				if h := splitmix(seed ^ uint64(c)*0x9e37); h%10 < 7 {
					first := Op{K: "get", Mode: "tag", Repo: int(h>>8) % len(p.Repos), Tag: []string{"anchor", "subject"}[(h>>16)%2]}
					if (h>>20)%2 == 0 {
						first = Op{K: "bget", Repo: first.Repo, Obj: p.Objs[p.Clients[0][2].Obj].Config}
					}
					if p.Repos[first.Repo] != "fresh/new" {
						p.Clients[c] = append([]Op{first}, p.Clients[c]...)
					}
				}
			}
		case "C03":
			if splitmix(seed^0xc01f)%2 == 0 {
				p.Extra["cold"], p.Extra["coldmem"] = true, true
			}
		}
	}
	return p
}

// planSharedSession (C01): two or three clients on one upload session, with an algorithm change between creation and
// completion, the second chunk racing the completion.
func planSharedSession(prop string, seed uint64, tier string, idx int) *Plan {
	cg := concSetup(seed, tier)
	g := cg.gen
	g.p.Profile = "one upload session used by several clients"
	cg.concKnobs(false)
	g.storeKnob("mem", "dir", "mem")
	a, b := g.newBlob(g.r.between(1, 120)), g.newBlob(g.r.between(1, 120))
	algos := []string{"", "sha256", "sha512", "sha384"}
	var clients [][]Op
	for s := 1; s <= g.r.between(1, 2); s++ {
		repo := g.r.intn(g.nrepos())
		create, finish := algos[g.r.intn(len(algos))], algos[g.r.intn(len(algos))]
		first := []Op{{K: "sx", Act: "post", Repo: repo, Sess: s, Algo: create}, {K: "sx", Act: "patch", Repo: repo, Sess: s, Obj: a}}
		if g.r.chance(30) {
			first = append(first, Op{K: "sleep", Ms: 0})
		}
		first = append(first, Op{K: "sx", Act: "put", Repo: repo, Sess: s, Obj: a, From: b, Algo2: finish, S: g.r.str("", "", "both")},
			Op{K: "sx", Act: "getall", Repo: repo, Obj: a, From: b})
		second := []Op{{K: "sx", Act: "wait", Repo: repo, Sess: s, A: g.r.pick(0, 1, 1, 1)}, {K: "sx", Act: "patch", Repo: repo, Sess: s, Obj: b}}
		if g.r.chance(40) {
			second = append(second, Op{K: "sx", Act: "put", Repo: repo, Sess: s, Obj: a, From: b, Algo2: algos[g.r.intn(len(algos))], S: g.r.str("both", "")})
		}
		second = append(second, Op{K: "sx", Act: "getall", Repo: repo, Obj: a, From: b})
		clients = append(clients, first, second)
		if g.r.chance(30) {
			clients = append(clients, []Op{{K: "sx", Act: "wait", Repo: repo, Sess: s, A: 1}, {K: "sx", Act: "patch", Repo: repo, Sess: s, Obj: a}, {K: "sx", Act: "getall", Repo: repo, Obj: a, From: b}})
		}
	}
	return cg.finishConc(prop, clients)
}

func planC13(prop string, seed uint64, tier string, idx int) *Plan {
	var p *Plan
	if idx%2 == 0 {
		p = planC11(prop, seed, tier, idx/2)
	} else {
		p = planC12(prop, seed, tier, idx/2*5) // never the close-in-flight variant: using a server while closing it is not a documented use
		p.Profile = strings.TrimSuffix(p.Profile, " (close in flight)")
	}
	if idx%3 == 0 {
		// the rate limiter is shared state too: a limit nobody reaches keeps its code on the path of every request
		p.Knobs.RateLimit = 1000000
		p.Profile += " + rate limiter"
	}
	if idx%4 < 2 && len(p.Clients) > 1 && p.Engine == "conc" {
		// names that were asked for and do not exist: the store tracks them, and a collection pass finds several
		// repositories it cannot collect at once
		g0 := len(p.Repos)
		p.Repos = append(p.Repos, "ghost/one", "ghost/two", "ghost/three")
		probe := []Op{{K: "tags", Repo: g0}, {K: "tags", Repo: g0 + 1}, {K: "tags", Repo: g0 + 2}}
		p.Clients[1] = append(probe, p.Clients[1]...)
		p.Profile += " + names that do not exist"
	}
	return p
}
