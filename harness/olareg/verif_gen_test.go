//go:build go1.25

package olareg

// Workload generation: one weighted generator (swarm style: weights, knobs, sizes and object
// graphs vary per run) specialised per property.

import (
	"encoding/base64"
	"fmt"
	"strings"

	"github.com/olareg/olareg/internal/simrt"
)

type gen struct {
	r    *rng
	p    *Plan
	ops  []Op
	tier string
	// generator-side intent state (what it believes it has pushed), only used to make sequences meaningful
	blobsIn  map[int]map[int]bool // repo -> obj
	mansIn   map[int]map[int]bool
	tagsIn   map[int]map[string]int
	nSess    int
	sessOpen map[int]int // sess idx -> repo
	sessObj  map[int]int
	tagPool  []string
	sleptMs  int64 // planned sleep so far: bounds the number of timer firings a plan can cause
	fewTags  bool  // graph profiles: three tags only (entries are retagged and re-added over and over)
}

func newGen(seed uint64, tier string) *gen {
	g := &gen{r: newRng(seed), p: &Plan{Engine: "seq", Knobs: defaultKnobs(), Extra: map[string]any{}}, tier: tier,
		blobsIn: map[int]map[int]bool{}, mansIn: map[int]map[int]bool{}, tagsIn: map[int]map[string]int{}, sessOpen: map[int]int{}, sessObj: map[int]int{}}
	g.tagPool = []string{"latest", "v1", "v1.0.1", "a", "_x", "A-b_c.d", "z9", "0", strings.Repeat("t", 128), "sha256-" + strings.Repeat("ab", 32), "b", "v2"}
	return g
}

func (g *gen) scale(n int) int {
	if g.tier == "thorough" {
		return n * 2
	}
	return n
}

func (g *gen) add(op Op) { g.ops = append(g.ops, op) }

func (g *gen) repos(n int) {
	pools := [][]string{{"r0"}, {"a", "a/b"}, {"a", "a/b", "a/b/c"}, {"proj/app", "proj"}, {"x-y.z_w", "x"}, {"lib/one", "lib/two", "other"}}
	var cands [][]string
	for _, p := range pools {
		if len(p) >= n {
			cands = append(cands, p[:n])
		}
	}
	g.p.Repos = cands[g.r.intn(len(cands))]
}

func (g *gen) nrepos() int { return len(g.p.Repos) }

func (g *gen) newBlob(size int) int {
	g.p.Objs = append(g.p.Objs, &Obj{Kind: "blob", Size: size, Fill: uint32(g.r.u64()), Subject: -1})
	return len(g.p.Objs) - 1
}

func (g *gen) blobSize() int {
	switch g.r.intn(10) {
	case 0:
		return 0
	case 1:
		return 1
	case 2:
		return g.r.between(30000, 70000)
	case 3:
		if g.tier == "thorough" {
			return g.r.between(100000, 200000)
		}
		return g.r.between(2000, 9000)
	default:
		return g.r.between(2, 600)
	}
}

func (g *gen) refAlgo() string {
	switch g.r.intn(8) {
	case 0:
		return "sha512"
	case 1:
		if g.r.chance(30) {
			return "sha384"
		}
		return "sha512"
	}
	return ""
}

// newImage creates an image manifest object over fresh (or shared) blobs.
func (g *gen) newImage(subject int, shareFrom int) int {
	o := &Obj{Kind: "image", Subject: subject, RefAlgo: g.refAlgo()}
	if shareFrom >= 0 && g.p.Objs[shareFrom].Kind == "image" && g.r.chance(50) {
		o.Config = g.p.Objs[shareFrom].Config
	} else {
		o.Config = g.newBlob(g.r.between(2, 80))
	}
	nl := g.r.intn(3)
	for i := 0; i < nl; i++ {
		if shareFrom >= 0 && g.p.Objs[shareFrom].Kind == "image" && len(g.p.Objs[shareFrom].Layers) > 0 && g.r.chance(40) {
			o.Layers = append(o.Layers, g.p.Objs[shareFrom].Layers[0])
		} else {
			o.Layers = append(o.Layers, g.newBlob(g.r.between(0, 400)))
			if g.r.chance(12) {
				// layers "not to be distributed" are pushed and have to be kept like any other once they are in the repository
				g.p.Objs[o.Layers[len(o.Layers)-1]].DescMT = g.r.str("application/vnd.oci.image.layer.nondistributable.v1.tar+gzip", "application/vnd.docker.image.rootfs.foreign.diff.tar.gzip", "application/vnd.oci.image.layer.nondistributable.v1.tar")
			}
		}
	}
	switch g.r.intn(6) {
	case 0:
		o.MT = mtDockManifest
		o.ConfigMT = "application/vnd.docker.container.image.v1+json"
	case 1:
		o.MT = "" // omitted mediaType field
		if g.r.chance(40) {
			// … the type the client pushes with is all there is to go by, whatever the config looks like
			o.ConfigMT = "application/vnd.docker.container.image.v1+json"
		}
	default:
		o.MT = mtOCIManifest
	}
	if subject >= 0 || g.r.chance(10) {
		if g.r.chance(60) {
			o.AT = g.r.str("application/vnd.example.sbom", "application/vnd.example.sig", "text/plain", "application/vnd.Example.Sig.v1+json", "application/x;v=1")
		} else {
			o.ConfigMT = g.r.str(mtEmpty, "application/vnd.example.cfg", mtOCIConfig)
		}
		if g.r.chance(50) {
			o.Annot = map[string]string{"org.example.k": fmt.Sprintf("v%d", g.r.intn(5))}
			if g.r.chance(30) {
				o.Annot["org.example.long"] = strings.Repeat("x", g.r.between(10, 300))
			}
		}
		if subject >= 0 && g.r.chance(15) {
			// annotations the registry itself uses for its index entries are ordinary annotations on somebody else's manifest
			if o.Annot == nil {
				o.Annot = map[string]string{}
			}
			o.Annot[g.r.str("org.opencontainers.image.ref.name", "org.opencontainers.image.ref.name", "org.opencontainers.image.title", "org.olareg.referrer.subject", "org.olareg.referrer.convert")] = g.r.str("v1", "sig", "app", "true", digestOf("sha256", []byte("x")))
		}
	}
	if subject >= 0 {
		o.SubjAlgo = g.p.Objs[subject].RefAlgo
		if g.r.chance(15) {
			o.SubjAlgo = "sha512"
		}
	}
	// make otherwise identical manifests distinct
	if o.Annot == nil && g.r.chance(50) {
		o.Annot = map[string]string{"n": fmt.Sprint(len(g.p.Objs))}
	}
	g.p.Objs = append(g.p.Objs, o)
	return len(g.p.Objs) - 1
}

func (g *gen) newIndex(children []int, subject int) int {
	o := &Obj{Kind: "index", Children: children, Subject: subject, RefAlgo: g.refAlgo(), MT: mtOCIIndex}
	if g.r.chance(15) {
		o.MT = mtDockList
	}
	if subject >= 0 {
		o.AT = g.r.str("application/vnd.example.bundle", "application/vnd.example.sig")
	}
	o.Annot = map[string]string{"n": fmt.Sprint(len(g.p.Objs))}
	g.p.Objs = append(g.p.Objs, o)
	return len(g.p.Objs) - 1
}

func (g *gen) markBlob(repo, obj int) {
	if g.blobsIn[repo] == nil {
		g.blobsIn[repo] = map[int]bool{}
	}
	g.blobsIn[repo][obj] = true
}
func (g *gen) markMan(repo, obj int) {
	if g.mansIn[repo] == nil {
		g.mansIn[repo] = map[int]bool{}
	}
	g.mansIn[repo][obj] = true
	g.markBlob(repo, obj)
}
func (g *gen) markTag(repo int, tag string, obj int) {
	if g.tagsIn[repo] == nil {
		g.tagsIn[repo] = map[string]int{}
	}
	g.tagsIn[repo][tag] = obj
}

// blobOp builds an upload of obj with a random protocol variant.
func (g *gen) blobOp(repo, obj int, honest bool) Op {
	o := g.p.Objs[obj]
	op := Op{K: "blob", Repo: repo, Obj: obj, Sess: g.nextSess()}
	size := o.Size
	if o.Kind != "blob" {
		size = 300
	}
	switch g.r.intn(10) {
	case 0, 1, 2:
		op.Mode = "mono"
	case 3, 4, 5:
		op.Mode = "put"
	default:
		op.Mode = "chunk"
		n := g.r.between(1, 4)
		left := size
		for i := 0; i < n; i++ {
			c := 0
			if left > 0 {
				c = g.r.intn(left + 1)
			}
			if i == n-1 {
				c = left
			}
			if g.r.chance(10) {
				c = 0
			}
			op.Chunks = append(op.Chunks, c)
			left -= c
		}
		if g.r.chance(50) {
			op.A = 1 // last chunk travels in the PUT
		}
		if g.r.chance(25) {
			op.B = g.r.between(1, 50) // deliver the body in several Write calls
		}
	}
	if g.r.chance(25) {
		op.Algo = g.r.str("sha256", "sha512", "sha384", "sha512")
	}
	if g.r.chance(25) {
		op.Algo2 = g.r.str("sha512", "sha384", "sha512", "sha256")
	}
	if !honest {
		op.Decl = g.r.str("wrong", "prefix", "other", "badfmt", "otheralgo-hex", "unsupported")
	}
	return op
}

func (g *gen) nextSess() int { g.nSess++; return g.nSess }

// ensureBlob pushes obj's bytes as a blob into repo unless already believed present.
func (g *gen) ensureBlob(repo, obj int) {
	if g.blobsIn[repo][obj] {
		return
	}
	g.add(g.blobOp(repo, obj, true))
	g.markBlob(repo, obj)
}

// pushManifest emits the operations to push manifest obj (dependencies first unless skipDeps).
func (g *gen) pushManifest(repo, obj int, tag string, skipDeps bool) {
	o := g.p.Objs[obj]
	if !skipDeps {
		if o.Kind == "image" {
			g.ensureBlob(repo, o.Config)
			for _, l := range o.Layers {
				g.ensureBlob(repo, l)
			}
		}
		for _, c := range o.Children {
			if !g.mansIn[repo][c] && !g.blobsIn[repo][c] {
				g.pushManifest(repo, c, "", false)
			}
		}
	}
	op := Op{K: "man", Repo: repo, Obj: obj, Tag: tag}
	if tag == "" {
		op.Algo = g.refAlgo()
	}
	switch g.r.intn(12) {
	case 0:
		op.CT = "none"
	case 1:
		op.CT = "params"
	case 2:
		op.CT = "upper"
	}
	if tag != "" && g.r.chance(15) {
		op.QD = "ok"
		op.Algo2 = g.r.str("sha256", "sha512")
	}
	if g.r.chance(15) {
		op.Len = "unknown"
	}
	g.add(op)
	g.markMan(repo, obj)
	if tag != "" {
		g.markTag(repo, tag, obj)
	}
}

func (g *gen) anyTag(repo int) string {
	if len(g.tagsIn[repo]) > 0 && g.r.chance(70) {
		ks := sortedKeys(g.tagsIn[repo])
		return ks[g.r.intn(len(ks))]
	}
	return g.tagPool[g.r.intn(len(g.tagPool))]
}

func (g *gen) anyObj(pred func(o *Obj) bool) int {
	var c []int
	for i, o := range g.p.Objs {
		if pred(o) {
			c = append(c, i)
		}
	}
	if len(c) == 0 {
		return 0
	}
	return c[g.r.intn(len(c))]
}

func (g *gen) pushedMan(repo int) (int, bool) {
	var c []int
	for i := range g.mansIn[repo] {
		c = append(c, i)
	}
	if len(c) == 0 {
		return 0, false
	}
	sortInts(c)
	return c[g.r.intn(len(c))], true
}

func sortInts(a []int) {
	for i := 1; i < len(a); i++ {
		for j := i; j > 0 && a[j] < a[j-1]; j-- {
			a[j], a[j-1] = a[j-1], a[j]
		}
	}
}

func (g *gen) rangeHdr(size int) string {
	switch g.r.intn(12) {
	case 0:
		return fmt.Sprintf("bytes=0-%d", g.r.intn(size+2))
	case 1:
		return fmt.Sprintf("bytes=%d-", g.r.intn(size+2))
	case 2:
		return fmt.Sprintf("bytes=-%d", g.r.intn(size+3))
	case 3:
		a := g.r.intn(size + 1)
		return fmt.Sprintf("bytes=%d-%d", a, a+g.r.intn(size+1))
	case 4:
		return fmt.Sprintf("bytes=%d-%d", size+5, size+9)
	case 5:
		return "bytes=5-2"
	case 6:
		return "bytes=abc"
	case 7:
		return "bytes=0-0"
	}
	return ""
}

func (g *gen) readOp(repo int) Op {
	op := Op{K: "get", Repo: repo, Head: g.r.chance(30)}
	switch g.r.intn(3) {
	case 0:
		op.Mode = "blob"
		op.Obj = g.anyObj(func(o *Obj) bool { return true })
		op.Algo = g.refAlgo()
	case 1:
		op.Mode = "man"
		if m, ok := g.pushedMan(repo); ok && g.r.chance(85) {
			op.Obj = m
		} else {
			op.Obj = g.anyObj(func(o *Obj) bool { return o.isManifest() })
		}
		op.Algo = g.refAlgo()
		op.Accept = g.r.str("exact", "list", "multi", "params", "upper", "all", "all", "nospace")
	default:
		op.Mode = "tag"
		op.Tag = g.anyTag(repo)
		op.Accept = g.r.str("exact", "list", "multi", "params", "all", "all", "other", "nospace")
	}
	if g.r.chance(35) {
		sz := len(g.p.Objs[op.Obj%len(g.p.Objs)].data)
		if sz == 0 {
			sz = g.p.Objs[op.Obj%len(g.p.Objs)].Size
		}
		op.Range = g.rangeHdr(sz + 120)
	}
	return op
}

func (g *gen) tagsOp(repo int) Op {
	op := Op{K: "tags", Repo: repo}
	nt := len(g.tagsIn[repo])
	switch g.r.intn(12) {
	case 0:
		op.N = "0"
	case 1:
		op.N = "1"
	case 2:
		op.N = "2"
	case 3:
		op.N = fmt.Sprint(max(nt-1, 1))
	case 4:
		op.N = fmt.Sprint(max(nt, 1))
	case 5:
		op.N = fmt.Sprint(nt + 1)
	case 6:
		// oversized values, up to the largest an int holds (a page computed as last+n must not wrap around)
		op.N = g.r.str("100000", "2147483647", "2147483648", "4294967296", "9223372036854775806", "9223372036854775807")
		if g.r.chance(60) {
			op.Last = g.r.str(g.anyTag(repo), "0", "zzzz")
		}
	case 7:
		op.N = g.r.str("-1", "-5", "-100000")
	case 8:
		op.N = g.r.str("abc", "1.5", " 2", "0x10", "99999999999999999999")
	}
	switch g.r.intn(8) {
	case 0:
		op.Last = g.anyTag(repo)
	case 1:
		op.Last = g.r.str("m", "0", "zzzz", "A", "~", " ", "v1.0")
	case 2:
		op.Last = g.r.str("not a tag!", "../x", "é")
	}
	return op
}

func (g *gen) finish(prop string, nontrivial ...string) *Plan {
	g.p.Clients = [][]Op{g.ops}
	nt := make([]any, len(nontrivial))
	for i := range nontrivial {
		nt[i] = nontrivial[i]
	}
	g.p.Extra["nontrivial"] = nt
	if g.p.Strat.Kind == "" {
		g.p.Strat = g.strategy()
	}
	return g.p
}

func (g *gen) strategy() simrt.Strategy {
	switch g.r.intn(6) {
	case 0:
		return simrt.Strategy{Kind: "uniform"}
	case 1:
		return simrt.Strategy{Kind: "sticky", Sticky: g.r.pick(50, 80, 95)}
	case 2:
		return simrt.Strategy{Kind: "pct", Depth: g.r.between(1, 3), Horizon: g.r.pick(300, 1000, 3000)}
	case 3:
		return simrt.Strategy{Kind: "seq", Preempt: g.r.between(0, 3), Horizon: g.r.pick(300, 1000, 3000)}
	case 4:
		return simrt.Strategy{Kind: "starve", Class: g.r.str("ticker", "timer", "go", "main", "client")}
	}
	return simrt.Strategy{Kind: "sticky", Sticky: 90}
}

func (g *gen) storeKnob(weights ...string) {
	g.p.Knobs.Store = weights[g.r.intn(len(weights))]
}

// gcKnobs draws a collection configuration. active=false keeps background collection from removing anything relevant.
func (g *gen) gcKnobs(natural bool) {
	k := &g.p.Knobs
	k.Untagged = g.r.pick(-1, 0, 1, 1)
	k.EmptyRepo = g.r.pick(-1, 0, 1)
	k.RefDangling = g.r.pick(-1, 0, 1)
	k.RefWithSubj = g.r.pick(-1, 0, 1)
	k.GCGraceMs = int64(g.r.pick(-1, -1, 1000, 60000, 0, 3600000))
	if natural {
		k.GCFreqMs = int64(g.r.pick(50, 1000, 60000, 0))
	} else {
		k.GCFreqMs = -1
	}
}

// ---------------------------------------------------------------------------------------------
// planners

func init() {
	planners["C01"] = planC01
	planners["C02"] = planC02
	planners["C03"] = planC03
	planners["C04"] = planC04
	planners["C07"] = planC07
	planners["C08"] = planC08
}

// C01: every upload protocol, algorithm and declared-digest variant; interleaved sessions.
func planC01(prop string, seed uint64, tier string, idx int) *Plan {
	if idx%5 == 4 {
		return planSharedSession(prop, seed, tier, idx)
	}
	g := newGen(seed, tier)
	g.p.Profile = "upload-protocol"
	g.repos(g.r.between(1, 2))
	g.storeKnob("dir", "dir", "mem")
	if idx%4 == 3 {
		g.p.Profile = "upload-protocol+faults"
		g.p.Knobs.Store = "dir"
		g.p.Knobs.FaultRate = g.r.pick(30, 100, 300)
		g.p.Knobs.FaultKinds = []string{"write"}
		g.p.Knobs.FaultRecover = idx%8 == 7
	}
	nb := g.r.between(2, 5)
	var blobs []int
	for i := 0; i < nb; i++ {
		blobs = append(blobs, g.newBlob(g.blobSize()))
	}
	img := g.newImage(-1, -1)
	// a blob whose content is itself a valid manifest
	g.p.Objs = append(g.p.Objs, &Obj{Kind: "raw", Raw: `{"schemaVersion":2,"mediaType":"` + mtOCIIndex + `","manifests":[]}`, Subject: -1})
	rawIdx := len(g.p.Objs) - 1
	// an index over the image: read by tag with an Accept header that only takes the image type, the child is served
	tidx := g.newIndex([]int{img}, -1)
	// indexes whose child "digest" is a path: nothing may ever be served under such a name
	var travIdx []int
	for _, d := range []string{"sha256:../../index.json", "sha256:../../oci-layout", "sha256:../sha256/" + strings.Repeat("0", 64), "sha512:../../index.json"} {
		g.p.Objs = append(g.p.Objs, &Obj{Kind: "raw", Raw: `{"schemaVersion":2,"mediaType":"` + mtOCIIndex + `","manifests":[{"mediaType":"` + mtOCIManifest + `","digest":"` + d + `","size":` + fmt.Sprint(g.r.pick(2, 30, 300)) + `}]}`, Subject: -1})
		travIdx = append(travIdx, len(g.p.Objs)-1)
	}
	// an index that describes the image with the wrong size (nothing verifies the sizes a client writes into an index)
	// (the image is never tagged: only an untagged entry is handed over to the child list of the index, with the
	// descriptor the index gives for it)
	plat := g.newImage(-1, -1)
	materialise(g.p.Objs)
	var wrongSize []int
	for _, sz := range []int{len(g.p.Objs[plat].data) - 1, len(g.p.Objs[plat].data) / 2, 1, len(g.p.Objs[plat].data) + 7} {
		g.p.Objs = append(g.p.Objs, &Obj{Kind: "raw", Raw: `{"schemaVersion":2,"mediaType":"` + mtOCIIndex + `","manifests":[{"mediaType":"` + g.p.Objs[plat].mediaType() + `","digest":"` + g.p.Objs[plat].digest("sha256") + `","size":` + fmt.Sprint(sz) + `}]}`, Subject: -1})
		wrongSize = append(wrongSize, len(g.p.Objs)-1)
	}
	// … and with an embedded "data" field that is not the content of the child (what is served under the child's digest
	// has to be the child, wherever the registry takes the bytes from)
	for _, emb := range []string{"embedded bytes that are not the manifest", string(g.p.Objs[img].data)} {
		for _, sz := range []int{len(emb), len(g.p.Objs[plat].data)} {
			g.p.Objs = append(g.p.Objs, &Obj{Kind: "raw", Raw: `{"schemaVersion":2,"mediaType":"` + mtOCIIndex + `","manifests":[{"mediaType":"` + g.p.Objs[plat].mediaType() + `","digest":"` + g.p.Objs[plat].digest("sha256") + `","size":` + fmt.Sprint(sz) + `,"data":"` + base64.StdEncoding.EncodeToString([]byte(emb)) + `"}]}`, Subject: -1})
			wrongSize = append(wrongSize, len(g.p.Objs)-1)
		}
	}
	n := g.scale(g.r.between(4, 14))
	for i := 0; i < n; i++ {
		repo := g.r.intn(g.nrepos())
		switch g.r.intn(16) {
		case 15:
			// two sessions opened for one announced digest (mount without a source falls back to a session that expects it),
			// open at the same time: the second one is fed other bytes, the first one completes
			x, y := blobs[0], blobs[1]
			a, b := g.nextSess(), g.nextSess()
			g.add(Op{K: "sess", Act: "post", Repo: repo, Sess: a, Obj: x, S: "mount-nofrom"})
			g.add(Op{K: "sess", Act: "patch", Sess: a, Obj: x, A: 1 << 20})
			g.add(Op{K: "sess", Act: "post", Repo: repo, Sess: b, Obj: x, S: "mount-nofrom"})
			g.add(Op{K: "sess", Act: "patch", Sess: b, Obj: y, A: 1 << 20})
			g.add(Op{K: "sess", Act: "put", Sess: a, Obj: x})
			g.add(Op{K: "get", Mode: "blob", Repo: repo, Obj: x})
			g.add(Op{K: "sess", Act: g.r.str("delete", "get", "put"), Sess: b, Obj: y})
			g.add(Op{K: "get", Mode: "blob", Repo: repo, Obj: x})
			g.markBlob(repo, x)
		case 14:
			g.pushManifest(repo, plat, "", false)
			g.add(Op{K: "man", Repo: repo, Obj: wrongSize[g.r.intn(len(wrongSize))], Tag: "sz", CT: g.r.str(mtOCIIndex, "none")})
			g.add(Op{K: "get", Mode: "man", Repo: repo, Obj: plat, Accept: "all", Head: g.r.chance(20)})
			g.add(Op{K: "get", Mode: "tag", Repo: repo, Tag: "sz", Accept: g.r.str("other", "all")})
		case 12:
			tag := g.r.str("multi", "latest")
			g.pushManifest(repo, tidx, tag, false)
			g.add(Op{K: "get", Mode: "tag", Repo: repo, Tag: tag, Accept: g.r.str("other", "other", "all"), Head: g.r.chance(30)})
			if g.r.chance(50) {
				// by digest no other manifest can stand in for it, whatever the client accepts
				g.add(Op{K: "get", Mode: "man", Repo: repo, Obj: tidx, Accept: "other", Head: g.r.chance(30)})
			}
		case 13:
			ti := travIdx[g.r.intn(len(travIdx))]
			g.add(Op{K: "man", Repo: repo, Obj: ti, Tag: "trav", CT: g.r.str(mtOCIIndex, "none")})
			g.add(Op{K: "get", Mode: "tag", Repo: repo, Tag: "trav", Accept: g.r.str("other", "all")})
		case 0, 1, 2, 3:
			b := blobs[g.r.intn(len(blobs))]
			g.add(g.blobOp(repo, b, true))
			g.markBlob(repo, b)
		case 4, 5, 6:
			g.add(g.blobOp(repo, blobs[g.r.intn(len(blobs))], false))
		case 7:
			// cross-repo mount: existing, missing or odd source
			b := blobs[g.r.intn(len(blobs))]
			op := Op{K: "blob", Mode: "mount", Repo: repo, Obj: b, From: g.r.intn(g.nrepos()), Sess: g.nextSess(), A: g.r.intn(2), Algo2: g.refAlgo()}
			if g.r.chance(20) {
				op.FromS = g.r.str("nosuch/repo", "UPPER", "a//b")
			}
			g.add(op)
		case 8:
			g.pushManifest(repo, img, g.r.str("", "v1", "latest"), g.r.chance(20))
		case 9:
			g.add(g.blobOp(repo, rawIdx, true))
			g.markBlob(repo, rawIdx)
		case 10:
			// manifest pushed under a digest it does not hash to / with disagreeing ?digest=
			op := Op{K: "man", Repo: repo, Obj: img, Decl: g.r.str("wrong", "badfmt"), Algo: g.refAlgo()}
			if g.r.chance(50) {
				op = Op{K: "man", Repo: repo, Obj: img, Tag: "v9", QD: g.r.str("bad", "badfmt"), Algo2: g.refAlgo()}
			}
			g.add(op)
		default:
			g.add(g.readOp(repo))
		}
	}
	return g.finish(prop, "upload-201", "mono-201", "manifest-201")
}

// C02: acknowledged content reads back identically across re-pushes, deletes, collections and restarts.
func planC02(prop string, seed uint64, tier string, idx int) *Plan {
	if idx%8 == 7 {
		return concSlice(prop, seed, tier, idx)
	}
	g := newGen(seed, tier)
	g.p.Profile = "read-back"
	g.repos(g.r.between(1, 2))
	g.storeKnob("dir", "dir", "mem")
	k := &g.p.Knobs
	if g.r.chance(60) {
		k.ManifestLimit = int64(g.r.pick(200, 400, 1000, 4096, 65536))
	}
	if g.r.chance(50) {
		g.gcKnobs(g.r.chance(50))
	}
	var imgs []int
	ni := g.r.between(1, 3)
	for i := 0; i < ni; i++ {
		share := -1
		if len(imgs) > 0 {
			share = imgs[0]
		}
		imgs = append(imgs, g.newImage(-1, share))
	}
	if g.r.chance(40) {
		ix := g.newIndex([]int{imgs[0]}, -1)
		imgs = append(imgs, ix)
		if g.r.chance(50) {
			// an index of indexes: the manifests below it are only reachable through two levels
			ix2 := g.newIndex([]int{ix}, -1)
			imgs = append(imgs, ix2)
			if g.r.chance(40) {
				imgs = append(imgs, g.newIndex([]int{ix2, imgs[len(imgs)-3]}, -1))
			}
		}
	}
	if g.r.chance(30) {
		// an image that lists another image's manifest among its layers (the digest is a manifest and a layer at once):
		// what the inner image refers to stays retained through its own tag
		alias := g.newImage(-1, -1)
		g.p.Objs[alias].Layers = append(g.p.Objs[alias].Layers, imgs[0])
		g.p.Objs[alias].Annot = map[string]string{"alias": "1"}
		imgs = append(imgs, alias)
	}
	// manifests around the size limit: valid JSON padded with whitespace
	if k.ManifestLimit > 0 {
		base := g.newImage(-1, imgs[0])
		o := g.p.Objs[base]
		materialise(g.p.Objs)
		cur := len(o.data)
		target := int(k.ManifestLimit) + g.r.pick(-1, 0, 1, 2, 50)
		if target > cur {
			o.Pad = target - cur
		}
		imgs = append(imgs, base)
	}
	extra := g.newBlob(g.blobSize())
	n := g.scale(g.r.between(6, 18))
	for i := 0; i < n; i++ {
		repo := g.r.intn(g.nrepos())
		switch g.r.intn(16) {
		case 0, 1, 2:
			m := imgs[g.r.intn(len(imgs))]
			g.pushManifest(repo, m, g.r.str("", "v1", "v2", "latest"), false)
		case 3:
			g.add(g.blobOp(repo, extra, true))
			g.markBlob(repo, extra)
		case 4, 5, 6, 7, 8:
			g.add(g.readOp(repo))
		case 9:
			if m, ok := g.pushedMan(repo); ok {
				if g.r.chance(50) {
					g.add(Op{K: "del", Mode: "man", Repo: repo, Obj: m})
					delete(g.mansIn[repo], m)
				} else {
					g.add(Op{K: "del", Mode: "tag", Repo: repo, Tag: g.anyTag(repo)})
				}
			}
		case 10:
			if k.Store != "mem" {
				g.add(Op{K: "restart"})
			}
		case 11:
			g.add(Op{K: "gc", Repo: g.r.pick(-1, repo)})
		case 12:
			g.add(Op{K: "sleep", Ms: g.sleepMs()})
		case 13:
			if g.r.chance(30) {
				g.add(Op{K: "del", Mode: "blob", Repo: repo, Obj: extra})
				delete(g.blobsIn[repo], extra)
			}
		default:
			g.add(g.readOp(repo))
		}
	}
	if idx%8 == 3 && k.Store == "dir" {
		// disk errors in single requests; afterwards the model is brought in line with what the server shows (the interrupted
		// operation may or may not be in effect) and everything else must read back as acknowledged
		g.p.Profile = "read-back + disk faults, model re-synchronised"
		k.FaultRate = g.r.pick(20, 60, 150)
		k.FaultKinds = [][]string{{"read"}, {"write"}, {"meta"}, {"read", "write", "meta"}}[g.r.intn(4)]
		k.FaultRecover = true
		k.GCFreqMs = -1
	}
	return g.finish(prop, "manifest-read", "blob-read")
}

// C03: tags as a last-writer-wins map, listing and paging.
func planC03(prop string, seed uint64, tier string, idx int) *Plan {
	if idx%8 == 7 {
		return concSlice(prop, seed, tier, idx)
	}
	g := newGen(seed, tier)
	g.p.Profile = "tags"
	g.repos(g.r.between(1, 2))
	g.storeKnob("dir", "mem", "dir")
	var imgs []int
	ni := g.r.between(2, 4)
	gcTags := false
	if idx%3 == 0 {
		// few tags on few manifests in one repository: the same index entries are retagged, untagged, removed and re-added
		// over and over (entry order and leftovers of earlier operations matter)
		g.p.Profile = "tags (three tags, two manifests)"
		g.repos(1)
		g.tagPool = []string{"t", "t0", "tx"}
		ni = 2
		if idx%9 == 3 {
			// … with untagged manifests collected at once: an entry that has a tag is never one of them, whatever other
			// entries of the same digest look like
			g.p.Profile += " + collection of untagged manifests"
			gcTags = true
			g.p.Knobs.Untagged, g.p.Knobs.GCGraceMs, g.p.Knobs.GCFreqMs = 1, -1, -1
		}
	}
	for i := 0; i < ni; i++ {
		share := -1
		if len(imgs) > 0 {
			share = imgs[0]
		}
		imgs = append(imgs, g.newImage(-1, share))
	}
	if g.r.chance(50) {
		// an index over manifests that may already carry tags of their own
		imgs = append(imgs, g.newIndex([]int{imgs[0], imgs[1]}, -1))
	}
	nested := -1
	if g.r.chance(35) {
		// an index whose descriptor for a child carries a ref.name annotation (exports of nested layouts do): that is a
		// property of the descriptor, not a tag of the repository
		materialise(g.p.Objs)
		c := g.p.Objs[imgs[0]]
		ghost := g.tagPool[g.r.intn(len(g.tagPool))]
		g.p.Objs = append(g.p.Objs, &Obj{Kind: "raw", Subject: -1, Raw: `{"schemaVersion":2,"mediaType":"` + mtOCIIndex + `","manifests":[{"mediaType":"` + c.mediaType() + `","digest":"` + c.digest("sha256") + `","size":` + fmt.Sprint(len(c.data)) + `,"annotations":{"org.opencontainers.image.ref.name":"` + ghost + `"}}]}`})
		nested = len(g.p.Objs) - 1
		g.pushManifest(0, imgs[0], "", false)
		g.ops[len(g.ops)-1].Algo, g.ops[len(g.ops)-1].QD = "", ""
		g.add(Op{K: "man", Repo: 0, Obj: nested, Tag: g.r.str("nest", ""), CT: mtOCIIndex})
		g.add(Op{K: "get", Mode: "tag", Repo: 0, Tag: ghost, Accept: "all"})
		g.add(g.tagsOp(0))
	}
	if gcTags && g.r.chance(60) {
		// leftovers: a manifest that carried two tags and lost one keeps an untagged entry next to the tagged one, and the
		// removal of an earlier entry changes their order
		a, b := imgs[g.r.intn(2)], imgs[g.r.intn(2)]
		t := g.r.perm(3)
		g.pushManifest(0, a, g.tagPool[t[0]], false)
		g.pushManifest(0, b, g.tagPool[t[1]], false)
		g.pushManifest(0, b, g.tagPool[t[2]], false)
		g.add(Op{K: "del", Mode: "tag", Repo: 0, Tag: g.tagPool[t[g.r.pick(1, 2)]]})
		if a != b && g.r.chance(70) {
			g.add(Op{K: "del", Mode: "man", Repo: 0, Obj: a, Algo: g.p.Objs[a].RefAlgo})
			delete(g.mansIn[0], a)
		}
		g.add(Op{K: "gc", Repo: 0})
		g.add(g.tagsOp(0))
	}
	n := g.scale(g.r.between(6, 22))
	for i := 0; i < n; i++ {
		repo := g.r.intn(g.nrepos())
		switch g.r.intn(14) {
		case 0, 1, 2, 3, 4:
			tag := g.tagPool[g.r.intn(len(g.tagPool))]
			if g.r.chance(35) {
				tag = g.anyTag(repo) // overwrite
			}
			g.pushManifest(repo, imgs[g.r.intn(len(imgs))], tag, false)
		case 5:
			g.pushManifest(repo, imgs[g.r.intn(len(imgs))], "", false)
		case 6, 7:
			g.add(Op{K: "del", Mode: "tag", Repo: repo, Tag: g.anyTag(repo)})
		case 8:
			if m, ok := g.pushedMan(repo); ok {
				g.add(Op{K: "del", Mode: "man", Repo: repo, Obj: m, Algo: g.p.Objs[m].RefAlgo})
			}
		case 9, 10, 11:
			if gcTags && g.r.chance(50) {
				g.add(Op{K: "gc", Repo: g.r.pick(-1, repo)})
			}
			g.add(g.tagsOp(repo))
		case 12:
			tag := g.anyTag(repo)
			if nested >= 0 && g.r.chance(50) {
				tag = g.tagPool[g.r.intn(len(g.tagPool))]
			}
			g.add(Op{K: "get", Mode: "tag", Repo: repo, Tag: tag, Accept: "all", Head: g.r.chance(30)})
		default:
			if g.p.Knobs.Store == "dir" && g.r.chance(35) {
				// what the tags are is read from index.json again
				g.add(Op{K: "restart"})
				g.add(g.tagsOp(repo))
			} else if m, ok := g.pushedMan(repo); ok {
				g.add(Op{K: "get", Mode: "man", Repo: repo, Obj: m, Accept: "all"})
			}
		}
	}
	g.add(g.tagsOp(g.r.intn(g.nrepos())))
	return g.finish(prop, "taglist-paged", "tag-deleted", "tag-read")
}

// C04: only complete, well-formed manifests are accepted; refusals change nothing.
func planC04(prop string, seed uint64, tier string, idx int) *Plan {
	if idx%8 == 7 {
		// concurrent histories with collections as interference: an acknowledged image is complete once everything is quiet
		return concSlice(prop, seed, tier, idx)
	}
	g := newGen(seed, tier)
	g.p.Profile = "bad-manifest"
	g.repos(g.r.between(1, 3))
	g.storeKnob("dir", "mem", "dir")
	good := g.newImage(-1, -1)
	good2 := g.newImage(-1, good)
	gidx := g.newIndex([]int{good}, -1)
	art := g.newImage(good, -1)
	// an image whose only layer is declared "not to be distributed" (foreign media type, urls): it has to be there like any other
	flayer := g.newBlob(g.r.between(1, 200)) // (objects are materialised in order: a layer comes before the image that names it)
	fimg := g.newImage(-1, -1)
	g.p.Objs[flayer].DescMT = g.r.str("application/vnd.oci.image.layer.nondistributable.v1.tar+gzip", "application/vnd.docker.image.rootfs.foreign.diff.tar.gzip", "application/vnd.oci.image.layer.nondistributable.v1.tar")
	g.p.Objs[fimg].Layers = []int{flayer}
	// a manifest that is valid up to the size limit and goes on beyond it (padding, then more): cut at the limit it would pass
	k4 := &g.p.Knobs
	big := -1
	if g.r.chance(35) {
		k4.ManifestLimit = int64(g.r.pick(600, 1000, 2048, 4096))
		big = g.newImage(-1, good)
		materialise(g.p.Objs)
		if cur := len(g.p.Objs[big].data); int(k4.ManifestLimit) > cur {
			g.p.Objs[big].Pad = int(k4.ManifestLimit) - cur + g.r.pick(1, 2, 50)
		}
	}
	// bodies whose own mediaType field contradicts their shape (config/layers under an index type and the reverse)
	confImg := g.newImage(-1, -1)
	g.p.Objs[confImg].MT = g.r.str(mtOCIIndex, mtDockList)
	confIdx := g.newIndex([]int{good}, -1)
	g.p.Objs[confIdx].MT = g.r.str(mtOCIManifest, mtDockManifest)
	// malformed bodies
	raws := []string{
		`{"schemaVersion":2,"mediaType":"` + mtOCIManifest + `","config":{"mediaType":"` + mtOCIConfig + `","digest":"sha256:`,
		`not json at all`,
		``,
		`[]`,
		`{"schemaVersion":2}`,
		`{"schemaVersion":2,"mediaType":"application/vnd.example.unknown+json","config":{}}`,
		`{"schemaVersion":2,"config":5,"layers":"x"}`,
		`{"schemaVersion":2,"mediaType":"` + mtOCIIndex + `","manifests":[{"mediaType":"` + mtOCIManifest + `","digest":"sha256:0000","size":1}]}`,
		`{"schemaVersion":2,"mediaType":"` + mtOCIManifest + `","config":{"mediaType":"` + mtOCIConfig + `","digest":"` + digestOf("sha256", []byte("nope")) + `","size":4},"layers":[]}`,
	}
	// a valid manifest followed by more bytes is not a manifest
	materialise(g.p.Objs)
	gb := string(g.p.Objs[good].data)
	raws = append(raws, gb+"}", gb+gb, gb+` {"x":1}`, gb+"\x00")
	// descriptors whose "digest" is a path: to a blob of another repository, to the index of this one
	hexCfg := strings.TrimPrefix(g.p.Objs[g.p.Objs[good].Config].digest("sha256"), "sha256:")
	for _, d := range []string{"sha256:../../../" + g.p.Repos[len(g.p.Repos)-1] + "/blobs/sha256/" + hexCfg, "sha256:../../index.json", "sha256:../sha256/" + hexCfg} {
		raws = append(raws, `{"schemaVersion":2,"mediaType":"`+mtOCIManifest+`","config":{"mediaType":"`+mtOCIConfig+`","digest":"`+d+`","size":`+fmt.Sprint(g.p.Objs[g.p.Objs[good].Config].Size)+`},"layers":[]}`)
	}
	var rawIdx []int
	for _, r := range raws {
		g.p.Objs = append(g.p.Objs, &Obj{Kind: "raw", Raw: r, Subject: -1})
		rawIdx = append(rawIdx, len(g.p.Objs)-1)
	}
	n := g.scale(g.r.between(5, 16))
	for i := 0; i < n; i++ {
		repo := g.r.intn(g.nrepos())
		switch g.r.intn(15) {
		case 14:
			// the body contradicts itself; the type is left to detection, repeated by the header, or set by the header
			m := g.r.pick(confImg, confIdx)
			if g.r.chance(40) {
				o := g.p.Objs[m]
				if o.Kind == "image" {
					g.ensureBlob(repo, o.Config)
					for _, l := range o.Layers {
						g.ensureBlob(repo, l)
					}
				} else if !g.mansIn[repo][good] {
					g.pushManifest(repo, good, "", false)
				}
			}
			g.add(Op{K: "man", Repo: repo, Obj: m, Tag: g.r.str("", "confused"), CT: g.r.str("none", "none", "own", mtOCIManifest, mtOCIIndex), Algo: g.refAlgo()})
		case 0, 1:
			g.pushManifest(repo, g.r.pick(good, good2, gidx, art), g.r.str("", "v1", "stable"), false)
		case 2:
			// missing references: config / one layer / child absent (only in another repository, or nowhere)
			m := g.r.pick(good, good2, gidx)
			other := (repo + 1) % g.nrepos()
			if g.nrepos() > 1 && g.r.chance(60) {
				g.pushManifest(other, m, "", false)
			}
			if g.blobsIn[repo] == nil || !g.mansIn[repo][m] {
				g.pushManifest(repo, m, g.r.str("", "v1"), true)
				delete(g.mansIn[repo], m)
			}
		case 3:
			// one layer missing
			if g.r.chance(40) {
				g.ensureBlob(repo, g.p.Objs[fimg].Config)
				g.add(Op{K: "man", Repo: repo, Obj: fimg, Tag: g.r.str("", "foreign")})
				break
			}
			if big >= 0 && g.r.chance(50) {
				o := g.p.Objs[big]
				g.ensureBlob(repo, o.Config)
				for _, l := range o.Layers {
					g.ensureBlob(repo, l)
				}
				g.add(Op{K: "man", Repo: repo, Obj: big, Tag: g.r.str("big", "big", ""), Len: g.r.str("unknown", "unknown", "")})
				break
			}
			o := g.p.Objs[good2]
			g.ensureBlob(repo, o.Config)
			g.add(Op{K: "man", Repo: repo, Obj: good2, Tag: g.r.str("", "half")})
		case 4, 5:
			ri := rawIdx[g.r.intn(len(rawIdx))]
			g.add(Op{K: "man", Repo: repo, Obj: ri, Tag: g.r.str("", "bad", "v1"), CT: g.r.str("own", "none", mtOCIIndex, mtDockManifest, mtDockList)})
		case 6:
			// type / shape mismatches with otherwise complete content
			m := g.r.pick(good, gidx)
			o := g.p.Objs[m]
			if o.Kind == "image" {
				g.ensureBlob(repo, o.Config)
				for _, l := range o.Layers {
					g.ensureBlob(repo, l)
				}
			}
			ct := mtOCIIndex
			if o.Kind == "index" {
				ct = mtOCIManifest
			}
			if g.r.chance(30) {
				ct = g.r.str("application/json", "text/plain", "application/vnd.oci.image.config.v1+json")
			}
			g.add(Op{K: "man", Repo: repo, Obj: m, Tag: g.r.str("", "mix"), CT: ct, Algo: g.refAlgo()})
		case 7:
			// image manifest with missing blobs sent with an index content type
			g.add(Op{K: "man", Repo: repo, Obj: g.r.pick(good, good2), Tag: g.r.str("", "sneaky"), CT: g.r.str(mtOCIIndex, mtDockList)})
		case 8, 9:
			// bad references, of a manifest that is complete more often than not (nothing else to refuse it for), also with
			// a ?digest= that is right
			if g.r.chance(70) {
				o := g.p.Objs[good]
				g.ensureBlob(repo, o.Config)
				for _, l := range o.Layers {
					g.ensureBlob(repo, l)
				}
			}
			op := Op{K: "man", Repo: repo, Obj: good, QD: g.r.str("", "", "ok", "ok", "bad"), Algo2: g.refAlgo()}
			if g.r.chance(50) {
				op.Tag = g.r.str("-bad", ".x", strings.Repeat("t", 129), "a:b", "sha256:abc", "a b", "v1+build", "-latest")
			} else {
				op.Decl, op.Algo = g.r.str("wrong", "badfmt"), g.refAlgo()
			}
			g.add(op)
		case 10:
			g.add(Op{K: "man", Repo: repo, Obj: good, Tag: "q", QD: g.r.str("ok", "bad", "badfmt"), Algo2: g.refAlgo()})
		case 11:
			g.add(g.readOp(repo))
		default:
			g.add(g.tagsOp(repo))
		}
	}
	return g.finish(prop, "manifest-refused")
}

// C07: referrers listings.
func planC07(prop string, seed uint64, tier string, idx int) *Plan {
	if idx%8 == 7 {
		return concSlice(prop, seed, tier, idx)
	}
	g := newGen(seed, tier)
	g.p.Profile = "referrers"
	g.repos(g.r.between(1, 2))
	g.storeKnob("dir", "mem", "dir")
	k := &g.p.Knobs
	switch g.r.intn(4) {
	case 0:
		k.RefLimit = int64(g.r.pick(300, 450, 700, 1200))
	case 1:
		k.RefLimit = int64(g.r.pick(2000, 5000))
	}
	k.PageCacheN = g.r.pick(0, 1, 2, 1000)
	k.PageCacheMs = int64(g.r.pick(0, 50, 2000, 600000))
	subj := g.newImage(-1, -1)
	subj2 := g.newIndex([]int{subj}, -1)
	var arts []int
	na := g.r.between(2, 6)
	if k.RefLimit > 0 {
		na = g.r.between(3, 9)
	}
	for i := 0; i < na; i++ {
		s := g.r.pick(subj, subj, subj2)
		var a int
		if g.r.chance(80) {
			a = g.newImage(s, -1)
		} else {
			a = g.newIndex(nil, s)
		}
		if g.r.chance(20) && len(arts) > 0 {
			// referrer of a referrer
			a = g.newImage(arts[0], -1)
		}
		arts = append(arts, a)
	}
	// an artifact whose subject does not exist
	g.p.Objs = append(g.p.Objs, &Obj{Kind: "image", Subject: -1, SubjFake: digestOf("sha256", []byte("missing subject")), Config: g.p.Objs[subj].Config, AT: "application/vnd.example.sig", MT: mtOCIManifest})
	dangling := len(g.p.Objs) - 1
	arts = append(arts, dangling)
	filters := []string{"application/vnd.example.sbom", "application/vnd.example.sig", "text/plain", mtEmpty, "nomatch", "application/vnd.example.cfg",
		"application/vnd.Example.Sig.v1+json", "application/x;v=1", "application/vnd.example.sig.v1+json", "application/x"}
	if g.r.chance(25) {
		// every artifact of one type, a type with characters that mean something in a query string: a filtered listing
		// that needs several pages has to carry the filter through its Link chain unharmed
		at := g.r.str("application/vnd.example.sbom+json", "application/x;v=1", "application/a&b=c", "text/p%20q", "x/y#z", "application/vnd.example.sig+xml; q=1")
		for _, a := range arts {
			if o := g.p.Objs[a]; o.Kind == "image" && a != dangling {
				o.AT = at
			}
		}
		filters = []string{at, at, at, "application/vnd.example.sig"}
		g.p.Profile = "referrers, one artifact type with reserved characters"
	}
	if idx%8 == 3 {
		// a listing long enough for several pages, read while artifacts are being deleted and the page cache is lost
		g.p.Profile = "referrers, paged listing with deletes between the pages"
		k.RefLimit = int64(g.r.pick(300, 450, 700, 1200))
		k.PageCacheMs = int64(g.r.pick(50, 2000)) // the cached pages expire between two requests of the chain …
		if k.Store == "dir" && g.r.chance(35) {
			k.PageCacheMs = 0 // … or the registry restarts
		}
		k.Delete = 1
		g.pushManifest(0, subj, "app", false)
		for i := g.r.between(4, 7); i > 0; i-- {
			a := g.newImage(subj, -1)
			g.p.Objs[a].RefAlgo, g.p.Objs[a].SubjAlgo = "", g.p.Objs[arts[0]].SubjAlgo
			arts = append(arts, a)
		}
		for _, a := range arts {
			if a != dangling && g.p.Objs[a].Subject == subj {
				g.pushManifest(0, a, "", false)
				g.ops[len(g.ops)-1].Algo, g.ops[len(g.ops)-1].QD = "", ""
			}
		}
		for i := 0; i < 2; i++ {
			g.add(Op{K: "refs", Repo: 0, Obj: subj, Mode: "churn", Algo: g.p.Objs[arts[0]].SubjAlgo})
		}
	}
	n := g.scale(g.r.between(6, 20))
	for i := 0; i < n; i++ {
		repo := g.r.intn(g.nrepos())
		switch g.r.intn(16) {
		case 0:
			g.pushManifest(repo, g.r.pick(subj, subj2), g.r.str("", "app"), false)
		case 1, 2, 3, 4:
			a := arts[g.r.intn(len(arts))]
			tag := ""
			if g.r.chance(40) {
				tag = g.r.str("sig", "sbom", "art", "sig")
			}
			g.pushManifest(repo, a, tag, false)
		case 5, 6, 7, 8:
			op := Op{K: "refs", Repo: repo, Obj: g.r.pick(subj, subj, subj2), A: g.r.intn(2)}
			op.Algo = g.p.Objs[arts[0]].SubjAlgo
			if g.r.chance(15) {
				op.Obj = arts[0]
			}
			if g.r.chance(10) {
				op.S = g.p.Objs[dangling].SubjFake
			}
			if g.r.chance(40) {
				op.Filter = filters[g.r.intn(len(filters))]
			}
			if g.r.chance(8) {
				op.Mode, op.A = "stale-page", g.r.between(1, 3)
			} else if k.RefLimit > 0 && g.r.chance(20) {
				op.Mode, op.A = "churn", 0
			}
			g.add(op)
		case 9:
			if m, ok := g.pushedMan(repo); ok {
				g.add(Op{K: "del", Mode: "man", Repo: repo, Obj: m, Algo: g.p.Objs[m].RefAlgo})
				delete(g.mansIn[repo], m)
			}
		case 10:
			g.add(Op{K: "del", Mode: "tag", Repo: repo, Tag: g.r.str("sig", "sbom", "art", "app")})
		case 11:
			if k.Store != "mem" {
				g.add(Op{K: "restart"})
			}
		case 12:
			g.add(Op{K: "sleep", Ms: int64(g.r.pick(10, 100, 3000, 400000))})
		case 13:
			g.add(Op{K: "refs", Repo: repo, S: g.r.str("sha256:zz", "notadigest", digestOf("sha512", []byte("unknown")))})
		default:
			g.pushManifest(repo, arts[g.r.intn(len(arts))], "", false)
		}
	}
	return g.finish(prop, "referrers-nonempty")
}

// C08: upload sessions.
func planC08(prop string, seed uint64, tier string, idx int) *Plan {
	if idx%10 == 9 {
		// the concurrent liveness workload (uploads racing with expiry, eviction and collection): a request on a session
		// that ends under it is refused (4xx), never answered 5xx with healthy storage (11.3: 5cf725d, d77085d, 1356d8a)
		p := planC12(prop, seed, tier, idx/10*5)
		p.Profile = strings.TrimSuffix(p.Profile, " (close in flight)") + " (concurrent sessions for C08)"
		return p
	}
	g := newGen(seed, tier)
	g.p.Profile = "sessions"
	g.repos(g.r.between(1, 2))
	g.storeKnob("dir", "dir", "mem")
	k := &g.p.Knobs
	k.UploadMax = g.r.pick(-1, 0, 1, 2, 3, 10)
	k.GCGraceMs = int64(g.r.pick(0, 1000, 5000, 60000, -1))
	if g.r.chance(40) {
		k.GCFreqMs = int64(g.r.pick(200, 5000, 60000))
		if k.grace() > 300*k.freq() {
			// (waiting out the grace period would be thousands of ticks)
			k.GCGraceMs = 300 * k.GCFreqMs
		}
	} else if g.r.chance(25) {
		// collection switched off: sessions expire all the same, and a repository with a session in use stays what it is
		k.GCOff = true
		g.p.Profile = "sessions (collection switched off)"
	}
	nb := g.r.between(1, 3)
	var blobs []int
	for i := 0; i < nb; i++ {
		blobs = append(blobs, g.newBlob(g.r.pick(0, 1, 7, 100, 1000, 5000)))
	}
	grace := k.grace().Milliseconds()
	n := g.scale(g.r.between(6, 24))
	for i := 0; i < n; i++ {
		repo := g.r.intn(g.nrepos())
		var open []int
		for s := range g.sessOpen {
			open = append(open, s)
		}
		sortInts(open)
		if len(open) == 0 || g.r.chance(20) {
			s := g.nextSess()
			op := Op{K: "sess", Act: "post", Repo: repo, Sess: s, Obj: blobs[g.r.intn(len(blobs))]}
			if g.r.chance(20) {
				op.Algo = g.r.str("sha512", "sha384", "sha256")
			}
			if g.r.chance(10) {
				op.S = "mount-nofrom"
				op.Algo2 = g.refAlgo()
			} else if g.r.chance(15) {
				op.S = "mount-from"
				op.B = g.r.intn(g.nrepos())
				op.Algo2 = g.refAlgo()
			}
			g.add(op)
			g.sessOpen[s] = repo
			g.sessObj[s] = op.Obj
			continue
		}
		s := open[g.r.intn(len(open))]
		obj := g.sessObj[s]
		size := g.p.Objs[obj].Size
		op := Op{K: "sess", Sess: s, Obj: obj}
		switch g.r.intn(16) {
		case 0, 1, 2, 3, 4:
			op.Act = "patch"
			op.A = g.r.pick(0, 1, size/3, size/2, size, 5)
			if g.r.chance(30) {
				op.Off = g.r.str("stale", "future", "bad", "none", "neg")
			}
			if g.r.chance(25) {
				op.State = g.r.str("stale", "future", "bad", "badjson", "none", "forged")
			}
			if g.r.chance(15) {
				op.B = g.r.between(1, 40)
			}
			if g.r.chance(8) {
				op.S = "abort"
			}
			if g.r.chance(10) && grace > 0 {
				op.Ms = grace * int64(g.r.pick(1, 2, 3)) / 2
				op.B = max(1, op.A/2)
			}
		case 5, 6:
			op.Act = "get"
		case 7, 8, 9:
			op.Act = "put"
			if len(blobs) > 1 && g.r.chance(12) {
				// the client finishes the session with other content than it started or announced (a mount that fell back to a
				// session was announced for one digest): correct digest of what is sent, just not what the session was for
				op.Obj = blobs[g.r.intn(len(blobs))]
			}
			if g.r.chance(30) {
				op.Decl = g.r.str("wrong", "prefix", "other", "badfmt")
			}
			if g.r.chance(15) {
				op.S = "partial"
			}
			if g.r.chance(20) {
				op.Algo2 = g.r.str("sha512", "sha384")
			}
			if g.r.chance(15) {
				op.Off = g.r.str("stale", "future", "bad")
			}
			if g.r.chance(15) {
				op.State = g.r.str("stale", "future", "bad", "none")
			}
			if op.Off == "" && op.State == "" {
				delete(g.sessOpen, s)
			}
		case 10:
			op.Act = "delete"
			delete(g.sessOpen, s)
		case 11:
			// use through another repository
			op.Act = g.r.str("patch", "get", "put", "delete")
			op.From = 1 + g.r.intn(g.nrepos())
			op.A = 3
		case 12:
			ms := g.sleepAround(grace)
			if f := k.freq(); f > 0 && ms > f.Milliseconds()*80 {
				ms = f.Milliseconds() * 80
			}
			g.add(Op{K: "sleep", Ms: ms})
			continue
		case 13:
			g.add(Op{K: "settle"})
			continue
		case 14:
			if k.Store != "mem" && g.r.chance(40) {
				g.add(Op{K: "restart"})
				g.sessOpen = map[int]int{}
			} else {
				g.add(Op{K: "gc", Repo: repo})
			}
			continue
		default:
			// reuse of a finished session id
			if g.nSess > len(g.sessOpen) {
				op.Sess = 1 + g.r.intn(g.nSess)
				op.Act = g.r.str("patch", "get", "put", "delete")
				op.A = 2
			} else {
				op.Act = "get"
			}
		}
		g.add(op)
	}
	if idx%5 == 4 && k.Store == "dir" {
		// write errors (short writes, ENOSPC) inside upload requests; the session is re-synchronised through its status
		g.p.Profile = "sessions + write faults, sessions re-synchronised"
		k.FaultRate = g.r.pick(30, 100, 300)
		k.FaultKinds = []string{"write"}
		k.FaultRecover = true
		k.GCFreqMs, k.GCOff = -1, false
	}
	return g.finish(prop, "upload-201", "session-over-bound", "timer-fired")
}

// sleepMs draws a sleep that is interesting relative to grace period and tick frequency but bounded in ticks.
func (g *gen) sleepMs() int64 {
	k := g.p.Knobs
	ms := int64(g.r.pick(10, 1000, 61000, 3700000))
	if g.r.chance(50) && k.grace() > 0 {
		ms = k.grace().Milliseconds() * int64(g.r.pick(5, 9, 11, 15, 25)) / 10
	}
	if f := k.freq(); f > 0 {
		if lim := f.Milliseconds() * 60; ms > lim {
			ms = lim
		}
		if left := f.Milliseconds()*1200 - g.sleptMs; ms > left {
			ms = left
		}
	}
	if ms < 1 {
		ms = 1
	}
	g.sleptMs += ms
	return ms
}

func (g *gen) sleepAround(grace int64) int64 {
	if grace <= 0 {
		return int64(g.r.pick(10, 1000, 100000))
	}
	return grace * int64(g.r.pick(1, 5, 9, 11, 15, 21, 25, 40)) / 10
}

// perm returns a random permutation of 0..n-1.
func (r *rng) perm(n int) []int {
	p := make([]int, n)
	for i := range p {
		p[i] = i
	}
	for i := n - 1; i > 0; i-- {
		j := r.intn(i + 1)
		p[i], p[j] = p[j], p[i]
	}
	return p
}
