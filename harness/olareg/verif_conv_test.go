//go:build go1.25

package olareg

// C17: a directory whose referrers were kept with the fallback tag scheme is converted without loss,
// repeatably, also when the conversion is interrupted, and the conversion terminates.
//
// The harness writes the legacy layout itself (accurate, stale, mixed-subject fallback indexes, entries for
// missing manifests, wrong descriptors, coexisting converted responses, sha256 and sha512 subjects), opens it
// with a writable directory store or a memory store over the directory, touches every repository, and judges
// the answers against what the files say. Every mutating filesystem operation of the conversion (and a torn
// prefix of every write) is a crash point: the tree as it was there is opened by a fresh server and must end
// with the same answers as the uninterrupted conversion.

import (
	"encoding/json"
	"fmt"
	"os"
	"path/filepath"
	"sort"
	"strings"
	"time"

	"github.com/olareg/olareg/internal/simrt"
)

func init() {
	engines["convert"] = engineConvert
	planners["C17"] = planC17
}

type convEnt struct {
	Art  int    `json:"art"`
	Kind string `json:"kind"` // "ok", "missing" (manifest absent), "wrongsize", "wrongmt", "noat", "noannot", "extraannot"
}

type convFB struct {
	Subj int       `json:"subj"`
	Algo string    `json:"algo"` // algorithm of the subject digest the tag is derived from
	Ents []convEnt `json:"ents"`
}

type convResp struct {
	Subj int    `json:"subj"`
	Algo string `json:"algo"`
	Arts []int  `json:"arts"`
}

type convTag struct {
	Obj int    `json:"obj"`
	Tag string `json:"tag"`
}

type convRepo struct {
	Tags     []convTag  `json:"tags"`
	Untagged []int      `json:"untagged"`
	TopArts  []int      `json:"top_arts"`  // artifacts that are also top-level entries of index.json
	BlobArts []int      `json:"blob_arts"` // artifacts only present as blobs (reachable through the fallback index only)
	FB       []convFB   `json:"fb"`
	Resp     []convResp `json:"resp"`
	Sha512   []int      `json:"sha512"` // artifacts that are stored and listed under their sha512 digest
}

type convSpec struct {
	Repos []convRepo `json:"repos"`
}

// fallbackTag is the tag the fallback scheme derives from a subject digest: "<alg>-<hex>", cut to 128 characters.
func fallbackTag(subjectDigest string) string {
	t := strings.Replace(subjectDigest, ":", "-", 1)
	if len(t) > 128 {
		t = t[:128]
	}
	return t
}

type convTruth struct {
	blobs    map[string][]byte          // every blob file written
	topMans  map[string]string          // digest -> media type: top-level entries that must stay readable as manifests
	tags     map[string]string          // non-fallback tags
	fbTags   map[string]bool            // fallback tags (may stay or go)
	must     map[string]map[string]bool // subject digest -> referrers that must be listed
	may      map[string]map[string]bool // subject digest -> referrers that may be listed (present, name the subject, listed nowhere)
	arts     map[string]*MMan           // artifact digest -> parsed manifest (for descriptors)
	wrongMT  map[string]bool            // manifests some legacy index describes with the wrong media type
	subjects []string
}

// seedConv writes one legacy repository and returns what it holds.
func (w *World) seedConv(root, repo string, cr convRepo) *convTruth {
	objs := w.x.p.Objs
	when := time.Now().Add(-240 * time.Hour)
	tr := &convTruth{blobs: map[string][]byte{}, topMans: map[string]string{}, tags: map[string]string{}, fbTags: map[string]bool{},
		must: map[string]map[string]bool{}, may: map[string]map[string]bool{}, arts: map[string]*MMan{}, wrongMT: map[string]bool{}}
	putBlob := func(d string, data []byte) {
		_ = writeFileAged(blobPath(root, repo, d), data, when)
		tr.blobs[d] = data
		w.m.usedDigests[d] = true
	}
	algoOfArt := map[int]string{}
	for _, a := range cr.Sha512 {
		algoOfArt[a] = "sha512"
	}
	dig := func(i int) string {
		if algoOfArt[i] != "" {
			return objs[i].digest(algoOfArt[i])
		}
		return objs[i].digest("sha256")
	}
	var putObj func(i int) string
	putObj = func(i int) string {
		ob := objs[i]
		d := dig(i)
		putBlob(d, ob.data)
		if ob.Kind == "image" {
			cd := objs[ob.Config].digest(ob.RefAlgo)
			putBlob(cd, objs[ob.Config].data)
			for _, l := range ob.Layers {
				putBlob(objs[l].digest(ob.RefAlgo), objs[l].data)
			}
		}
		for _, c := range ob.Children {
			cd := putObj(c)
			if ob.RefAlgo != "" && ob.RefAlgo != "sha256" {
				putBlob(objs[c].digest(ob.RefAlgo), objs[c].data)
			}
			_ = cd
		}
		return d
	}
	subjOf := func(art int) string {
		a := objs[art]
		if a.Subject < 0 {
			return ""
		}
		return objs[a.Subject].digest(a.SubjAlgo)
	}
	note := func(m map[string]map[string]bool, s, d string) {
		if m[s] == nil {
			m[s] = map[string]bool{}
		}
		m[s][d] = true
	}
	artMan := func(art int) *MMan {
		ob := objs[art]
		mt := ob.mediaType()
		return &MMan{data: ob.data, mt: mt, mts: map[string]bool{mt: true}, view: parseManifest(ob.data).under(mt)}
	}
	var idx []descJSON
	top := func(i int, tag string) {
		ob := objs[i]
		d := putObj(i)
		ent := descJSON{MediaType: ob.mediaType(), Digest: d, Size: int64(len(ob.data))}
		if tag != "" {
			ent.Annotations = map[string]string{annRefName: tag}
			tr.tags[tag] = d
			w.m.usedTags[tag] = true
		}
		idx = append(idx, ent)
		tr.topMans[d] = ob.mediaType()
	}
	for _, t := range cr.Tags {
		top(t.Obj, t.Tag)
	}
	for _, u := range cr.Untagged {
		top(u, "")
	}
	present := map[int]bool{}
	for _, a := range cr.TopArts {
		top(a, "")
		present[a] = true
	}
	for _, a := range cr.BlobArts {
		putObj(a)
		present[a] = true
	}
	listedAnywhere := map[int]bool{}
	for _, fb := range cr.FB {
		subjD := objs[fb.Subj].digest(fb.Algo)
		var descs []descJSON
		for _, e := range fb.Ents {
			ob := objs[e.Art]
			x := artMan(e.Art)
			d := dig(e.Art)
			desc := descJSON{MediaType: ob.mediaType(), Digest: d, Size: int64(len(ob.data)), ArtifactType: x.artifactType(), Annotations: x.view.annot}
			switch e.Kind {
			case "missing":
				// listed, but the manifest is not there (and nothing else brought it)
			case "wrongsize":
				desc.Size++
			case "wrongmt":
				tr.wrongMT[d] = true
				if desc.MediaType == mtOCIManifest {
					desc.MediaType = mtDockManifest
				} else {
					desc.MediaType = mtOCIManifest
				}
			case "noat":
				desc.ArtifactType = ""
			case "noannot":
				desc.Annotations = nil
			case "extraannot":
				desc.Annotations = map[string]string{"stale": "yes"}
				for k, v := range x.view.annot {
					desc.Annotations[k] = v
				}
			}
			if e.Kind != "missing" {
				if !present[e.Art] {
					putObj(e.Art)
					present[e.Art] = true
				}
				listedAnywhere[e.Art] = true
			}
			descs = append(descs, desc)
		}
		body, _ := json.Marshal(map[string]any{"schemaVersion": 2, "mediaType": mtOCIIndex, "manifests": descs})
		fd := digestOf("sha256", body)
		putBlob(fd, body)
		tag := fallbackTag(subjD)
		idx = append(idx, descJSON{MediaType: mtOCIIndex, Digest: fd, Size: int64(len(body)), Annotations: map[string]string{annRefName: tag}})
		tr.fbTags[tag] = true
		w.m.usedTags[tag] = true
		w.m.usedDigests[subjD] = true
	}
	for _, rs := range cr.Resp {
		subjD := objs[rs.Subj].digest(rs.Algo)
		var descs []descJSON
		for _, a := range rs.Arts {
			ob := objs[a]
			x := artMan(a)
			if !present[a] {
				putObj(a)
				present[a] = true
			}
			listedAnywhere[a] = true
			descs = append(descs, descJSON{MediaType: ob.mediaType(), Digest: dig(a), Size: int64(len(ob.data)), ArtifactType: x.artifactType(), Annotations: x.view.annot})
		}
		body, _ := json.Marshal(map[string]any{"schemaVersion": 2, "mediaType": mtOCIIndex, "manifests": descs})
		rd := digestOf("sha256", body)
		putBlob(rd, body)
		idx = append(idx, descJSON{MediaType: mtOCIIndex, Digest: rd, Size: int64(len(body)), Annotations: map[string]string{annSubject: subjD}})
		w.m.usedDigests[subjD] = true
	}
	// what must and may be listed: by the subject each present manifest actually names
	for a := range present {
		s := subjOf(a)
		if s == "" {
			continue
		}
		d := dig(a)
		tr.arts[d] = artMan(a)
		w.m.usedDigests[s] = true
		if listedAnywhere[a] {
			note(tr.must, s, d)
		} else {
			note(tr.may, s, d)
		}
	}
	for s := range tr.must {
		tr.subjects = append(tr.subjects, s)
	}
	for s := range tr.may {
		if tr.must[s] == nil {
			tr.subjects = append(tr.subjects, s)
		}
	}
	sort.Strings(tr.subjects)
	dir := filepath.Join(root, repo)
	_ = os.MkdirAll(dir, 0755)
	_ = writeFileAged(filepath.Join(dir, "oci-layout"), []byte(`{"imageLayoutVersion":"1.0.0"}`), when)
	if idx == nil {
		idx = []descJSON{}
	}
	ib, _ := json.Marshal(map[string]any{"schemaVersion": 2, "mediaType": mtOCIIndex, "manifests": idx})
	_ = writeFileAged(filepath.Join(dir, "index.json"), ib, when)
	return tr
}

func convSpecOf(p *Plan) (convSpec, error) {
	var spec convSpec
	b, err := json.Marshal(p.Extra["conv"])
	if err != nil {
		return spec, err
	}
	err = json.Unmarshal(b, &spec)
	return spec, err
}

func engineConvert(x *X) {
	p := x.p
	materialise(p.Objs)
	spec, err := convSpecOf(p)
	if err != nil || len(spec.Repos) != len(p.Repos) {
		x.out.Infra = fmt.Sprintf("bad conversion spec: %v", err)
		return
	}
	root := filepath.Join(x.root, "data")
	_ = os.MkdirAll(root, 0755)
	w := newWorld(x, p.Knobs, root, p.Knobs.Store)
	truth := map[string]*convTruth{}
	for i, repo := range p.Repos {
		truth[repo] = w.seedConv(root, repo, spec.Repos[i])
	}
	tree0 := scanTree(root)
	legacy0 := filepath.Join(x.root, "legacy0")
	_ = copyTree(root, legacy0)
	defer os.RemoveAll(legacy0)
	// crash points of the conversion (the directory store writes; the memory store keeps the result in memory)
	var snaps []crashSnap
	fs := x.sim.FS
	fs.Torn = p.Knobs.Torn
	if p.Knobs.Store == "dir" {
		fs.OnMut = func(k int, op, path string, phase, n int) {
			if len(snaps) >= 200 {
				return
			}
			dir := filepath.Join(x.root, fmt.Sprintf("snap-%d-%d", k, phase))
			if err := copyTree(root, dir); err != nil {
				return
			}
			task := ""
			if t := simrt.Cur(); t != nil {
				task = t.Name
			}
			snaps = append(snaps, crashSnap{dir: dir, k: k, phase: phase, op: op, path: strings.ReplaceAll(path, root, ""), task: task})
		}
	}
	defer func() {
		for _, s := range snaps {
			_ = os.RemoveAll(s.dir)
		}
	}()
	// 1. open and touch every repository: the conversion runs
	convFrom := fs.N
	w.open()
	touch := func(w *World) {
		for _, repo := range p.Repos {
			w.do(reqSpec{method: "GET", path: "/v2/" + repo + "/tags/list", repos: []string{repo}})
		}
	}
	touch(w)
	w.settle()
	convOps := fs.N - convFrom
	fs.OnMut = nil
	x.mixs("open")
	ref := map[string]*obs{}
	for _, repo := range p.Repos {
		ref[repo] = w.observe(repo)
		w.judgeConverted(repo, truth[repo], ref[repo], tree0, "after the conversion")
	}
	clean := func() bool { return !x.stop && (len(x.out.Viol) == 0 || x.allResynced) }
	// 2. repeat: a restart converts again (nothing left to do) and must give the same answers
	if clean() {
		var ixBefore map[string][]byte
		if p.Knobs.Store == "dir" {
			ixBefore = map[string][]byte{}
			for _, repo := range p.Repos {
				ixBefore[repo], _ = os.ReadFile(filepath.Join(root, repo, "index.json"))
			}
		}
		_ = w.close()
		w.settle()
		w.open()
		touch(w)
		w.settle()
		x.mixs("reopen")
		for _, repo := range p.Repos {
			o2 := w.observe(repo)
			if d := obsDiff(ref[repo], o2, truth[repo].wrongMT); len(d) > 0 {
				kind, _, _ := strings.Cut(d[0], " ")
				x.viol([]string{"C17"}, "convert.not-repeatable", kind, fmt.Sprintf("%s: opening the converted directory again changes the answers: %s", repo, strings.Join(d, "; ")))
				break
			}
			if ixBefore != nil {
				now, _ := os.ReadFile(filepath.Join(root, repo, "index.json"))
				if !sameIndexFile(ixBefore[repo], now) {
					x.viol([]string{"C17"}, "convert.not-repeatable", "index.json rewritten with other content", fmt.Sprintf("%s: index.json after the second load differs from the one after the first:\n%s\nvs\n%s", repo, trunc(ixBefore[repo], 700), trunc(now, 700)))
					break
				}
			}
		}
		x.out.probe("convert-repeated")
	}
	func() {
		defer func() { _ = recover() }()
		_ = w.close()
		w.settle()
	}()
	// C14 on the same trees (before the recovery below completes the conversion in them): the legacy layout and every interrupted state of its conversion, opened read-only (directory
	// store, or memory store over the directory), is served without a single mutating filesystem operation
	if ro, _ := p.Extra["ro"].(bool); ro && clean() {
		rk := p.Knobs
		rk.ReadOnly = 1
		if splitmix(p.Seed^0x70)%2 == 0 {
			rk.Store = "memdir"
		} else {
			rk.Store = "dir"
		}
		legacy := legacy0
		dirs := []crashSnap{{dir: legacy, op: "none", path: "the legacy layout as it was"}}
		dirs = append(dirs, snaps...)
		for _, s := range dirs {
			before := scanTree(s.dir)
			m0 := x.sim.FS.NMut
			rw := newWorld(x, rk, s.dir, "read-only")
			for d := range w.m.usedDigests {
				rw.m.usedDigests[d] = true
			}
			for t := range w.m.usedTags {
				rw.m.usedTags[t] = true
			}
			rw.open()
			touch(rw)
			for _, repo := range p.Repos {
				rw.observe(repo)
			}
			rw.settle()
			func() {
				defer func() { _ = recover() }()
				_ = rw.close()
				rw.settle()
			}()
			after := scanTree(s.dir)
			where := fmt.Sprintf("%s store opened read-only on the state before fs op #%d (%s %s) of a conversion", rk.Store, s.k, s.op, s.path)
			if d := diffTrees(before, after, true); len(d) > 0 {
				sort.Strings(d)
				kind, _, _ := strings.Cut(d[0], " ")
				x.viol([]string{"C14"}, "ro.tree-changed", kind+" (interrupted conversion)", fmt.Sprintf("%s: the tree changed: %v", where, d))
				break
			}
			if n := x.sim.FS.NMut - m0; n > 0 {
				x.viol([]string{"C14"}, "ro.mutating-op", "interrupted conversion", fmt.Sprintf("%s: %d mutating filesystem operations were issued", where, n))
				break
			}
			x.out.probe("ro-on-conversion-state")
		}
	}
	// 3. every crash point of the first conversion, recovered by a fresh server
	if clean() {
		for _, s := range snaps {
			rw := newWorld(x, p.Knobs, s.dir, "recovered")
			for d := range w.m.usedDigests {
				rw.m.usedDigests[d] = true
			}
			for t := range w.m.usedTags {
				rw.m.usedTags[t] = true
			}
			rw.open()
			touch(rw)
			rw.settle()
			where := fmt.Sprintf("conversion interrupted before fs op #%d (%s %s)", s.k, s.op, s.path)
			sig := s.op + " of " + pathKind(s.path)
			if s.phase == 1 {
				where = fmt.Sprintf("conversion interrupted after a torn prefix of fs op #%d (%s %s)", s.k, s.op, s.path)
				sig = "torn " + sig
			}
			for _, repo := range p.Repos {
				o := rw.observe(repo)
				if d := obsDiff(ref[repo], o, truth[repo].wrongMT); len(d) > 0 {
					kind, _, _ := strings.Cut(d[0], " ")
					// (C09 too: its histories include conversions; what the layout held before the crash is still in effect afterwards)
					x.viol([]string{"C17", "C09"}, "convert.interrupted-differs", kind+" after "+sig, fmt.Sprintf("%s, then repeated by a fresh server: %s answers differ from the uninterrupted conversion: %s", where, repo, strings.Join(d, "; ")))
					break
				}
				rw.judgeMarked(repo, "after an interrupted conversion was repeated")
			}
			func() {
				defer func() { _ = recover() }()
				_ = rw.close()
				rw.settle()
			}()
			x.out.CrashPoints++
			if !clean() {
				break
			}
		}
	}
	// 4. every filesystem operation of the conversion (reads as well as writes) fails once with an I/O error instead of the
	// process dying there: the same server, once storage is healthy again, and a fresh server after it must both answer like
	// the uninterrupted conversion
	if ro, _ := p.Extra["ro"].(bool); !ro && clean() && convOps > 0 && p.Prop != "C12" {
		step := 1
		if convOps > 40 {
			step = (convOps + 39) / 40
		}
		off := int(splitmix(p.Seed^0xfa17) % uint64(step))
		for j := 1 + off; j <= convOps && clean(); j += step {
			dir := filepath.Join(x.root, fmt.Sprintf("fault-%d", j))
			if copyTree(legacy0, dir) != nil {
				break
			}
			fw := newWorld(x, p.Knobs, dir, "faulted")
			for d := range w.m.usedDigests {
				fw.m.usedDigests[d] = true
			}
			for t := range w.m.usedTags {
				fw.m.usedTags[t] = true
			}
			sup := x.suppress
			x.suppress = true
			fs.Faults = []simrt.FaultSpec{{N: fs.N + j, Errno: "EIO", Short: -1}}
			nf := len(fs.Fired)
			fw.open()
			touch(fw)
			fw.settle()
			fs.Faults = nil
			x.suppress = sup
			fired := len(fs.Fired) > nf
			what := ""
			if fired {
				what = fs.FiredKinds[len(fs.FiredKinds)-1]
			}
			where := fmt.Sprintf("fs op #%d of the conversion failed (%s)", j, what)
			judge := func(jw *World, who string) bool {
				touch(jw)
				jw.settle()
				for _, repo := range p.Repos {
					o := jw.observe(repo)
					if d := obsDiff(ref[repo], o, truth[repo].wrongMT); len(d) > 0 {
						kind, _, _ := strings.Cut(d[0], " ")
						opk, _, _ := strings.Cut(what, ":")
						x.viol([]string{"C17"}, "convert.error-differs", kind+" after a failed "+opk+" ("+who+")", fmt.Sprintf("%s; afterwards, with healthy storage, %s: %s answers differ from the uninterrupted conversion: %s", where, who, repo, strings.Join(d, "; ")))
						return false
					}
				}
				return true
			}
			ok := true
			if fired {
				ok = judge(fw, "the same server")
				x.out.probe("convert-op-failed")
			}
			func() {
				defer func() { _ = recover() }()
				_ = fw.close()
				fw.settle()
			}()
			if fired && ok {
				fw2 := newWorld(x, p.Knobs, dir, "after-fault")
				fw2.m = fw.m
				fw2.open()
				judge(fw2, "a fresh server")
				func() {
					defer func() { _ = recover() }()
					_ = fw2.close()
					fw2.settle()
				}()
			}
			_ = os.RemoveAll(dir)
			x.out.CrashPoints++
		}
	}
	nFB, nArt := 0, 0
	for _, cr := range spec.Repos {
		nFB += len(cr.FB)
		for _, f := range cr.FB {
			nArt += len(f.Ents)
		}
	}
	x.mix(uint64(nFB), uint64(nArt), uint64(len(snaps)))
	x.out.NonTrivial = nFB > 0
	x.out.States = append(x.out.States, uint64(nFB)<<16|uint64(nArt)<<4|uint64(len(spec.Repos)))
	sb, _ := json.Marshal(spec)
	x.mixs(string(sb))
	x.out.Sample = fmt.Sprintf(`{"seed":%d,"profile":%q,"store":%q,"layout":%s,"crash_points":%d}`, p.Seed, p.Profile, p.Knobs.Store, trunc(sb, 900), x.out.CrashPoints)
	if !json.Valid([]byte(x.out.Sample)) {
		x.out.Sample = fmt.Sprintf(`{"seed":%d,"profile":%q,"store":%q,"fallback_indexes":%d,"listed":%d,"crash_points":%d}`, p.Seed, p.Profile, p.Knobs.Store, nFB, nArt, x.out.CrashPoints)
	}
}

// obsDiff compares two observations. A manifest that the legacy data itself describes with two different media types
// (the fallback index says one thing, the manifest another, and the fallback index stays in the repository under its
// tag) is served under whichever description is found first: the Content-Type of those is not compared.
func obsDiff(a, b *obs, loose map[string]bool) []string {
	var d []string
	norm := func(k, v string) string {
		if kind, dg, _ := strings.Cut(k, " "); kind == "man" && loose[dg] {
			f := strings.Fields(v)
			if len(f) == 4 {
				return f[0] + " * " + f[2] + " " + f[3]
			}
		}
		return v
	}
	for _, k := range sortedKeys(a.items) {
		if norm(k, b.items[k]) != norm(k, a.items[k]) {
			d = append(d, fmt.Sprintf("%s: %q -> %q", k, a.items[k], b.items[k]))
		}
	}
	return d
}

// sameIndexFile: same entries and annotations, whatever the order.
func sameIndexFile(a, b []byte) bool {
	norm := func(raw []byte) string {
		var doc struct {
			Manifests   []descJSON        `json:"manifests"`
			Annotations map[string]string `json:"annotations"`
		}
		if json.Unmarshal(raw, &doc) != nil {
			return "!" + string(raw)
		}
		var ents []string
		for _, m := range doc.Manifests {
			eb, _ := json.Marshal(m)
			ents = append(ents, string(eb))
		}
		sort.Strings(ents)
		ab, _ := json.Marshal(doc.Annotations)
		return strings.Join(ents, "\n") + "\n" + string(ab)
	}
	return norm(a) == norm(b)
}

// judgeMarked: a writable directory store marks the layout as converted.
func (w *World) judgeMarked(repo, when string) {
	if w.k.Store != "dir" || w.k.readOnly() {
		return
	}
	raw, err := os.ReadFile(filepath.Join(w.root, repo, "index.json"))
	var doc struct {
		Annotations map[string]string `json:"annotations"`
	}
	if err != nil || json.Unmarshal(raw, &doc) != nil {
		w.x.viol([]string{"C17"}, "convert.not-marked", "index.json unreadable", fmt.Sprintf("%s %s: index.json cannot be read: %v %q", repo, when, err, trunc(raw, 200)))
		return
	}
	if doc.Annotations[annConvert] != "true" {
		w.x.viol([]string{"C17"}, "convert.not-marked", "annotation missing", fmt.Sprintf("%s %s: index.json is not marked as converted: annotations %v", repo, when, doc.Annotations))
	}
}

// judgeConverted applies the conversion oracles to one repository.
func (w *World) judgeConverted(repo string, tr *convTruth, o *obs, tree0 map[string]fileInfo, when string) {
	x := w.x
	// exactly those referrers, grouped by the subject each manifest names
	for _, s := range tr.subjects {
		_, descs, ok := w.refPage(repo, s, "")
		if !ok {
			x.viol([]string{"C17"}, "convert.referrers", "listing fails", fmt.Sprintf("%s %s: referrers of %s cannot be listed", repo, when, s))
			return
		}
		got := map[string]descJSON{}
		for _, d := range descs {
			if _, dup := got[d.Digest]; dup {
				x.viol([]string{"C17"}, "convert.referrers", "duplicate entry", fmt.Sprintf("%s %s: referrers of %s list %s twice", repo, when, s, d.Digest))
			}
			got[d.Digest] = d
		}
		algo := algoOf(s)
		for _, d := range sortedKeys(tr.must[s]) {
			if _, ok := got[d]; !ok {
				x.viol([]string{"C17"}, "convert.referrers", "lost referrer of a "+algo+" subject", fmt.Sprintf("%s %s: referrers of %s lack %s, which the fallback scheme listed and which names that subject; listed: %v", repo, when, s, d, keysOf(got)))
				return
			}
		}
		for _, d := range sortedKeys(got) {
			if !tr.must[s][d] && !tr.may[s][d] {
				x.viol([]string{"C17"}, "convert.referrers", "extra entry", fmt.Sprintf("%s %s: referrers of %s list %s, which is not a present manifest naming that subject", repo, when, s, d))
				return
			}
			n := len(x.out.Viol)
			w.checkDesc(tr.arts[d], d, got[d])
			if len(x.out.Viol) > n {
				// re-label for this property
				v := &x.out.Viol[len(x.out.Viol)-1]
				v.Props = append(v.Props, "C17")
				return
			}
		}
		if len(tr.must[s]) > 0 {
			x.out.probe("converted-listing-nonempty")
			if algo == "sha512" {
				x.out.probe("converted-listing-sha512")
			}
		}
	}
	// every other tag, manifest and blob is kept
	_, tags, ok := w.tagPage(repo, "")
	if !ok {
		x.viol([]string{"C17"}, "convert.kept", "tag listing fails", fmt.Sprintf("%s %s: tags cannot be listed", repo, when))
		return
	}
	have := map[string]bool{}
	for _, t := range tags {
		have[t] = true
		if _, ok := tr.tags[t]; !ok && !tr.fbTags[t] {
			x.viol([]string{"C17"}, "convert.kept", "tag appeared", fmt.Sprintf("%s %s: tag %q was never in the layout", repo, when, t))
			return
		}
	}
	for _, t := range sortedKeys(tr.tags) {
		if !have[t] {
			x.viol([]string{"C17"}, "convert.kept", "tag lost", fmt.Sprintf("%s %s: tag %q is gone", repo, when, t))
			return
		}
		if v := o.items["tag "+t]; !strings.HasPrefix(v, "200 ") || !strings.Contains(v, " "+tr.tags[t]+" ") {
			x.viol([]string{"C17"}, "convert.kept", "tag does not resolve", fmt.Sprintf("%s %s: tag %q (%s) answers %q", repo, when, t, tr.tags[t], v))
			return
		}
	}
	for _, d := range sortedKeys(tr.topMans) {
		if v := o.items["man "+d]; !strings.HasPrefix(v, "200 ") {
			x.viol([]string{"C17"}, "convert.kept", "manifest lost", fmt.Sprintf("%s %s: manifest %s (an entry of index.json) answers %q", repo, when, d, v))
			return
		}
	}
	for _, s := range tr.subjects {
		for _, d := range sortedKeys(tr.must[s]) {
			if v := o.items["man "+d]; !strings.HasPrefix(v, "200 ") {
				x.viol([]string{"C17"}, "convert.kept", "referrer manifest not readable", fmt.Sprintf("%s %s: referrer %s of %s answers %q when read as a manifest", repo, when, d, s, v))
				return
			}
		}
	}
	for _, d := range sortedKeys(tr.blobs) {
		if v := o.items["blob "+d]; !strings.HasPrefix(v, "200 ") {
			x.viol([]string{"C17"}, "convert.kept", "blob lost", fmt.Sprintf("%s %s: blob %s answers %q", repo, when, d, v))
			return
		}
	}
	if w.k.Store == "dir" {
		for pth, fi := range tree0 {
			if fi.dir || !strings.HasPrefix(pth, repo+"/blobs/") {
				continue
			}
			if _, err := os.Stat(filepath.Join(w.root, pth)); err != nil {
				x.viol([]string{"C17"}, "convert.kept", "blob file removed", fmt.Sprintf("%s %s: %s is gone", repo, when, pth))
				return
			}
		}
	}
	w.judgeMarked(repo, when)
	x.out.probe("converted-judged")
}

// ---------------------------------------------------------------------------------------------
// generator

func planC17(prop string, seed uint64, tier string, idx int) *Plan {
	g := newGen(seed, tier)
	g.p.Engine = "convert"
	g.p.Profile = "fallback-tag layouts"
	g.repos(g.r.between(1, 2))
	k := &g.p.Knobs
	k.Store = g.r.str("dir", "dir", "memdir")
	k.GCFreqMs = -1
	// (Close collects: nothing in the layout is old enough, so that "the same answers after opening it again" is about the
	// conversion and not about what a collection does with the fallback indexes it made redundant)
	k.GCGraceMs = 1000 * 3600 * 1000
	k.Untagged, k.RefDangling, k.RefWithSubj, k.EmptyRepo = 0, 0, 0, 0
	k.Torn = g.r.chance(50)
	if k.Store == "memdir" {
		g.p.Profile = "fallback-tag layouts (memory over the directory)"
	}
	// subjects and their artifacts
	ns := g.r.between(1, 3)
	var subjects []int
	arts := map[int][]int{}
	for i := 0; i < ns; i++ {
		var s int
		if g.r.chance(25) && len(subjects) > 0 {
			s = g.newIndex([]int{subjects[0]}, -1)
		} else {
			s = g.newImage(-1, -1)
		}
		g.p.Objs[s].RefAlgo = "sha256"
		subjects = append(subjects, s)
		algo := "sha256"
		if g.r.chance(30) {
			algo = "sha512"
		}
		na := g.r.between(0, 4)
		for j := 0; j < na; j++ {
			var a int
			if g.r.chance(80) {
				a = g.newImage(s, -1)
			} else {
				a = g.newIndex(nil, s)
			}
			o := g.p.Objs[a]
			o.RefAlgo, o.SubjAlgo = "sha256", algo
			if o.MT == "" {
				o.MT = mtOCIManifest
			}
			arts[s] = append(arts[s], a)
		}
		if g.r.chance(20) && len(arts[s]) > 0 {
			// a referrer of a referrer
			a := g.newImage(arts[s][0], -1)
			o := g.p.Objs[a]
			o.RefAlgo, o.SubjAlgo = "sha256", "sha256"
			if o.MT == "" {
				o.MT = mtOCIManifest
			}
			arts[arts[s][0]] = append(arts[arts[s][0]], a)
			subjects = append(subjects, arts[s][0])
		}
	}
	spec := convSpec{}
	for range g.p.Repos {
		cr := convRepo{Tags: []convTag{}, Untagged: []int{}, TopArts: []int{}, BlobArts: []int{}, FB: []convFB{}, Resp: []convResp{}, Sha512: []int{}}
		used := map[int]bool{}
		for si, s := range subjects {
			if g.p.Objs[s].Subject >= 0 {
				continue // an artifact that is a subject itself is placed by its own subject
			}
			switch g.r.intn(4) {
			case 0:
				cr.Untagged = append(cr.Untagged, s)
			case 1:
				// the subject is not in this repository (dangling referrers)
			default:
				cr.Tags = append(cr.Tags, convTag{Obj: s, Tag: fmt.Sprintf("v%d", si)})
			}
		}
		for _, s := range subjects {
			as := arts[s]
			if len(as) == 0 {
				continue
			}
			algo := g.p.Objs[as[0]].SubjAlgo
			mode := g.r.intn(10)
			if mode == 0 {
				continue // this repository keeps no referrers of that subject
			}
			fb := convFB{Subj: s, Algo: algo}
			for _, a := range as {
				kind := "ok"
				switch {
				case mode == 1 && g.r.chance(50): // stale: some are not listed
					if g.r.chance(50) {
						cr.TopArts = append(cr.TopArts, a)
					} else {
						cr.BlobArts = append(cr.BlobArts, a)
					}
					used[a] = true
					continue
				case mode == 2 && g.r.chance(40):
					kind = g.r.str("wrongsize", "wrongmt", "noat", "noannot", "extraannot")
				case mode == 3 && g.r.chance(40):
					kind = "missing"
				}
				fb.Ents = append(fb.Ents, convEnt{Art: a, Kind: kind})
				if kind != "missing" {
					used[a] = true
					if g.r.chance(30) {
						cr.TopArts = append(cr.TopArts, a) // also a top-level entry, as some tools write it
					}
				}
			}
			if mode == 4 {
				// mixed subjects: an artifact of another subject is listed here too
				for _, s2 := range subjects {
					if s2 != s && len(arts[s2]) > 0 {
						fb.Ents = append(fb.Ents, convEnt{Art: arts[s2][0], Kind: "ok"})
						used[arts[s2][0]] = true
						break
					}
				}
			}
			if mode == 5 && len(as) > 1 {
				// a converted response for the same subject coexists (a partly converted or mixed-tool layout)
				k := 1 + g.r.intn(len(as)-1)
				cr.Resp = append(cr.Resp, convResp{Subj: s, Algo: algo, Arts: as[:k]})
				if g.r.chance(60) {
					// … and each of the two lists something the other does not
					inResp := map[int]bool{}
					for _, a := range as[:k] {
						inResp[a] = true
					}
					ents := fb.Ents[:0]
					for _, e := range fb.Ents {
						if !inResp[e.Art] {
							ents = append(ents, e)
						}
					}
					fb.Ents = ents
				}
			}
			if len(fb.Ents) > 0 {
				cr.FB = append(cr.FB, fb)
			}
			if mode == 6 {
				// only a converted response, no fallback tag, but no marker either
				cr.FB = cr.FB[:len(cr.FB)-min(1, len(cr.FB))]
				cr.Resp = append(cr.Resp, convResp{Subj: s, Algo: algo, Arts: as})
			}
		}
		// dedupe top-level artifacts
		seen := map[int]bool{}
		ta := cr.TopArts[:0]
		for _, a := range cr.TopArts {
			if !seen[a] {
				seen[a] = true
				ta = append(ta, a)
			}
		}
		cr.TopArts = ta
		var usedArts []int
		for a := range used {
			usedArts = append(usedArts, a)
		}
		sort.Ints(usedArts)
		for _, a := range usedArts {
			if g.p.Objs[a].Subject >= 0 && g.r.chance(20) {
				cr.Sha512 = append(cr.Sha512, a)
			}
		}
		// some unrelated content
		if g.r.chance(50) {
			cr.Tags = append(cr.Tags, convTag{Obj: g.newImage(-1, -1), Tag: g.r.str("latest", "stable", "sha256-notafallbacktag")})
			g.p.Objs[len(g.p.Objs)-1].RefAlgo = "sha256"
		}
		spec.Repos = append(spec.Repos, cr)
	}
	g.p.Extra["conv"] = spec
	g.add(Op{K: "check"})
	p := g.finish(prop)
	p.Engine = "convert"
	return p
}
