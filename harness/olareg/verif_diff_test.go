//go:build go1.25

package olareg

// C10: the directory is always a valid OCI layout equal to the API state; a restart and the memory
// store give the same answers. One plan is executed against a directory server and a memory server
// in the same simulated run.

import (
	"fmt"
	"os"
	"path/filepath"
	"sort"
	"strings"
)

func init() {
	engines["diff"] = engineDiff
	planners["C10"] = planC10
}

func engineDiff(x *X) {
	p := x.p
	materialise(p.Objs)
	root := filepath.Join(x.root, "data")
	if err := os.MkdirAll(root, 0755); err != nil {
		x.out.Infra = err.Error()
		return
	}
	kd, km := p.Knobs, p.Knobs
	kd.Store, km.Store = "dir", "mem"
	wd := newWorld(x, kd, root, "dir")
	wm := newWorld(x, km, "", "mem")
	wd.open()
	wm.open()
	worlds := []*World{wd, wm}
	ops := p.Clients[0]
	for i, op := range ops {
		x.opIdx = i
		nv := len(x.out.Viol)
		switch op.K {
		case "restart":
			wd.opRestart() // the memory store has nothing to restart from
		case "check":
			for _, w := range worlds {
				w.exec(op)
			}
			compareWorlds(wd, wm)
		default:
			for _, w := range worlds {
				w.exec(op)
				if x.stop {
					break
				}
			}
		}
		x.mixs(op.K + op.Mode + op.Act)
		x.noteViolations(nv)
		if x.stop || (len(x.out.Viol) > nv && !x.resynced) {
			break
		}
		x.resynced = false
	}
	clean := !x.stop && (len(x.out.Viol) == 0 || x.allResynced)
	if clean {
		x.opIdx = len(ops)
		for _, w := range worlds {
			w.settle()
			w.checkSessions()
			w.checkState(true)
		}
		wd.checkLayout(false)
		compareWorlds(wd, wm)
	}
	for _, w := range worlds {
		func() {
			defer func() { _ = recover() }()
			if !w.k.readOnly() {
				w.markCollectable()
			}
			_ = w.close()
		}()
	}
	if clean && !x.stop {
		wd.settle()
		wd.afterClose()
	}
	x.finishSeq(wd)
}

// compareWorlds: both stores give the same answer to every content read request (over the names the run used),
// except for content a collection may legitimately have removed in one of them.
func compareWorlds(a, b *World) {
	if a.closed || b.closed {
		return
	}
	for _, repo := range a.x.p.Repos {
		if a.tainted[repo] || b.tainted[repo] {
			continue
		}
		for d := range b.m.usedDigests {
			a.m.usedDigests[d] = true
		}
		for d := range a.m.usedDigests {
			b.m.usedDigests[d] = true
		}
		for t := range b.m.usedTags {
			a.m.usedTags[t] = true
		}
		for t := range a.m.usedTags {
			b.m.usedTags[t] = true
		}
		oa, ob := a.observe(repo), b.observe(repo)
		ma, mb := a.m.repo(repo), b.m.repo(repo)
		// status of an item per one world's model: "present", "absent" or "unsure" (collectable, re-derivable child, known defect family)
		status := func(m *MRepo, kind, d string) string {
			if m.causeOf(d) != "" {
				return "unsure"
			}
			switch kind {
			case "blob":
				x, ok := m.blobs[d]
				switch {
				case !ok:
					return "absent"
				case x.maybeGone:
					return "unsure"
				}
				return "present"
			case "man":
				x, ok := m.mans[d]
				switch {
				case !ok && (m.isChildOfPresent(d) || m.ghosts[d]):
					return "unsure"
				case !ok:
					return "absent"
				case x.maybeGone || m.blobDeleted[d]:
					return "unsure"
				}
				return "present:" + strings.Join(sortedKeys(x.mts), ",")
			case "tag":
				return "tag->" + m.tags[d]
			}
			if kind == "refs" && m.respLost[d] {
				return "unsure"
			}
			if kind == "refs" {
				for ad, a := range m.mans {
					if a.view.subject == d && m.causeOf(ad) != "" {
						return "unsure"
					}
				}
			}
			// listings: comparable only when the two models hold the same manifests and tags, all of them certain
			var parts []string
			for md, x := range m.mans {
				if x.maybeGone {
					return "unsure"
				}
				parts = append(parts, md)
			}
			for t, td := range m.tags {
				parts = append(parts, t+"="+td)
			}
			sort.Strings(parts)
			return strings.Join(parts, "|")
		}
		var diffs []string
		for k, va := range oa.items {
			vb, ok := ob.items[k]
			if !ok || va == vb {
				continue
			}
			kind, d, _ := strings.Cut(k, " ")
			sa, sb := status(ma, kind, d), status(mb, kind, d)
			if sa != sb || sa == "unsure" || strings.Contains(sa, ",") {
				continue // the histories legitimately diverged (a collection removed content in one store only)
			}
			diffs = append(diffs, fmt.Sprintf("%s: dir %q, mem %q (model: dir %s, mem %s)", k, va, vb, sa, sb))
		}
		if len(diffs) > 0 {
			sort.Strings(diffs)
			kind, _, _ := strings.Cut(diffs[0], " ")
			a.x.viol([]string{"C10"}, "store.diff", kind, fmt.Sprintf("%s: the directory store and the memory store answer differently after the same requests: %s", repo, strings.Join(diffs, "; ")))
			return
		}
	}
	a.x.out.probe("stores-compared")
}

func planC10(prop string, seed uint64, tier string, idx int) *Plan {
	if idx%8 == 7 {
		return concSlice(prop, seed, tier, idx)
	}
	if idx%8 == 4 {
		return planC10Entries(prop, seed, tier)
	}
	g := newGen(seed, tier)
	g.p.Engine = "diff"
	g.p.Profile = "dir vs mem, restarts"
	g.repos(g.r.between(1, 3))
	k := &g.p.Knobs
	switch g.r.intn(3) {
	case 0:
		g.gcKnobs(false)
	case 1:
		g.gcKnobs(true)
		g.p.Profile = "dir vs mem, restarts, natural collection"
	}
	if g.r.chance(30) {
		k.UploadMax = g.r.pick(1, 2, 3)
	}
	if g.r.chance(12) {
		// the layout is the same valid layout with the referrers API switched off (from the first start on)
		k.Referrer = 0
		g.p.Profile += ", referrers API off"
	}
	if idx%4 == 0 {
		g.fewTags = true
		g.tagPool = []string{"t", "t0", "tx"}
		g.p.Profile += ", three tags"
	}
	images, indexes, arts := g.gcGraph()
	// unlike the collection profiles, other digest algorithms are welcome here
	for _, o := range g.p.Objs {
		if o.isManifest() && g.r.chance(25) {
			o.RefAlgo = g.r.str("sha512", "sha384", "sha512")
		}
	}
	extra := g.newBlob(g.blobSize())
	materialise(g.p.Objs)
	all := append(append(append([]int{}, images...), indexes...), arts...)
	n := g.scale(g.r.between(8, 26))
	for i := 0; i < n; i++ {
		repo := g.r.intn(g.nrepos())
		switch g.r.intn(18) {
		case 0, 1:
			g.add(Op{K: "restart"})
		case 2:
			g.add(Op{K: "check"})
		case 3:
			g.add(Op{K: "gc", Repo: g.r.pick(-1, repo, repo)})
			if g.r.chance(50) {
				g.add(Op{K: "check"})
			}
		case 4:
			g.add(Op{K: "sleep", Ms: g.sleepMs()})
		case 5:
			// first push to a repository with a collection between the uploads and the manifest
			m := images[g.r.intn(len(images))]
			o := g.p.Objs[m]
			g.ensureBlob(repo, o.Config)
			for _, l := range o.Layers {
				g.ensureBlob(repo, l)
			}
			if g.r.chance(60) {
				g.add(Op{K: "gc", Repo: g.r.pick(-1, repo)})
			} else {
				g.add(Op{K: "sleep", Ms: g.sleepMs()})
			}
			g.pushManifest(repo, m, g.r.str("", "first"), false)
		case 6:
			m := all[g.r.intn(len(all))]
			g.pushManifest(repo, m, g.r.str("v1", "v2", "latest"), false)
			if g.r.chance(50) {
				g.ops[len(g.ops)-1].QD, g.ops[len(g.ops)-1].Algo2 = "ok", g.r.str("sha512", "sha256")
			}
		case 7:
			if g.r.chance(30) {
				g.add(g.tagsOp(repo))
			} else {
				g.add(Op{K: "refs", Repo: repo, Obj: images[0], A: g.r.intn(2)})
			}
		case 8:
			if g.r.chance(25) {
				// names that would put a repository inside the layout of another one
				name := g.p.Repos[repo] + "/" + g.r.str("blobs", "blobs/sha256", "blobs/sha256/x", "index.json", "oci-layout/x", "blobs/x/y")
				rq := &RawReq{Method: "GET", Path: "/v2/" + name + "/tags/list"}
				if g.r.chance(50) {
					b := g.p.Objs[extra]
					rq = &RawReq{Method: "POST", Path: "/v2/" + name + "/blobs/uploads/", Query: "digest=" + b.digest("sha256"), Body: b.data}
				}
				g.add(Op{K: "raw", Raw: rq, S: "reserved"})
				break
			}
			g.add(g.readOp(repo))
		case 10:
			// an untagged index and its child are collected, then the child's bytes come back through the blob endpoint:
			// they are a blob, not a manifest, in both stores and after a restart
			if g.p.Knobs.untagged() && g.p.Knobs.grace() < 0 && len(indexes) > 0 {
				ix := indexes[g.r.intn(len(indexes))]
				if ch := g.p.Objs[ix].Children; len(ch) > 0 && g.p.Objs[ch[0]].Kind == "image" {
					g.pushManifest(repo, ix, "", false)
					g.add(Op{K: "gc", Repo: repo})
					g.add(Op{K: "blob", Mode: "put", Repo: repo, Obj: ch[0], Sess: g.nextSess()})
					g.add(Op{K: "get", Mode: "man", Repo: repo, Obj: ch[0], Accept: "all"})
					g.add(Op{K: "restart"})
					g.add(Op{K: "get", Mode: "man", Repo: repo, Obj: ch[0], Accept: "all"})
					g.add(Op{K: "check"})
					break
				}
			}
			g.gcHistoryOp(repo, images, indexes, arts, extra)
		case 9:
			// a stored blob is uploaded again (a plain session, no digest on the POST) shortly before its grace period ends,
			// and read when the period of the first upload is over but not that of the second
			if gr := g.p.Knobs.grace().Milliseconds(); gr > 0 && gr <= 60000 && (g.p.Knobs.GCFreqMs < 0 || g.p.Knobs.freq().Milliseconds()*300 > gr) {
				g.add(g.blobOp(repo, extra, true))
				g.markBlob(repo, extra)
				g.add(Op{K: "sleep", Ms: gr * 6 / 10})
				op := g.blobOp(repo, extra, true)
				op.Mode, op.Chunks = "put", nil
				g.add(op)
				g.add(Op{K: "sleep", Ms: gr * 6 / 10})
				g.add(Op{K: "gc", Repo: repo})
				g.add(Op{K: "get", Mode: "blob", Repo: repo, Obj: extra})
				break
			}
			g.gcHistoryOp(repo, images, indexes, arts, extra)
		default:
			g.gcHistoryOp(repo, images, indexes, arts, extra)
		}
	}
	g.add(Op{K: "check"})
	return g.finish(prop, "stores-compared")
}

// planC10Entries: three tags on two or three manifests in one repository, no collection: the same few index.json entries are
// retagged, untagged, removed and re-added over and over, and the file is looked at (check) and read back (restart) all
// the time. What index.json looks like depends on entry order and on the leftovers of earlier operations.
func planC10Entries(prop string, seed uint64, tier string) *Plan {
	g := newGen(seed, tier)
	g.p.Engine = "diff"
	g.p.Profile = "dir vs mem, restarts: few index entries reworked"
	g.repos(1)
	g.tagPool = []string{"t", "t0", "tx"}
	g.fewTags = true
	var imgs []int
	for i := g.r.between(2, 3); i > 0; i-- {
		share := -1
		if len(imgs) > 0 {
			share = imgs[0]
		}
		imgs = append(imgs, g.newImage(-1, share))
	}
	n := g.scale(g.r.between(8, 24))
	for i := 0; i < n; i++ {
		switch g.r.intn(12) {
		case 0, 1, 2, 3, 4:
			tag := g.tagPool[g.r.intn(len(g.tagPool))]
			if g.r.chance(35) {
				tag = g.anyTag(0)
			}
			g.pushManifest(0, imgs[g.r.intn(len(imgs))], tag, false)
		case 5:
			g.pushManifest(0, imgs[g.r.intn(len(imgs))], "", false)
		case 6, 7:
			g.add(Op{K: "del", Mode: "tag", Repo: 0, Tag: g.anyTag(0)})
		case 8:
			if m, ok := g.pushedMan(0); ok {
				g.add(Op{K: "del", Mode: "man", Repo: 0, Obj: m})
				delete(g.mansIn[0], m)
			}
		case 9:
			g.add(Op{K: "check"})
		case 10:
			g.add(Op{K: "restart"})
			g.add(g.tagsOp(0))
		default:
			g.add(g.readOp(0))
		}
	}
	g.add(Op{K: "check"})
	return g.finish(prop, "stores-compared")
}
