//go:build go1.25

package olareg

// C13: the Go race detector is the oracle over each simulated execution.
//
// In a -race build the simulator's own synchronisation (the baton) is hidden from the detector
// (runtime.RaceDisable around it, simrt compiled without instrumentation), while the simulated
// sync.Mutex/RWMutex/WaitGroup/Once/Cond announce exactly the happens-before edges of the real ones
// (RaceAcquire/RaceRelease). Channels, goroutine creation, timers and atomics are real. The detector
// therefore sees the program's own happens-before relation on a schedule chosen by the seeded
// scheduler. Reports go to the file named by GORACE log_path; after every run the worker reads what was
// appended and turns each report into a violation whose signature is the pair of innermost olareg
// frames of the two conflicting accesses.

import (
	"encoding/json"
	"fmt"
	"os"
	"os/exec"
	"path/filepath"
	"sort"
	"strings"
	"testing"

	"github.com/olareg/olareg/internal/simrt"
)

var raceLogOff = map[string]int64{}

type raceReport struct {
	sig     string
	harness bool // no code under test on at least one side: an artefact of the harness, not a verdict
	text    string
}

func raceLogFiles() []string {
	prefix := os.Getenv("VERIF_RACELOG")
	if prefix == "" {
		return nil
	}
	m, _ := filepath.Glob(prefix + ".*")
	sort.Strings(m)
	return m
}

// newRaceReports returns the reports appended to the race log since the last call.
func newRaceReports() []raceReport {
	var out []raceReport
	for _, f := range raceLogFiles() {
		b, err := os.ReadFile(f)
		if err != nil {
			continue
		}
		off := raceLogOff[f]
		if int64(len(b)) <= off {
			continue
		}
		txt := string(b[off:])
		// only consume complete reports (a report ends with a line of '=')
		end := strings.LastIndex(txt, "==================\n")
		if end < 0 {
			continue
		}
		end += len("==================\n")
		raceLogOff[f] = off + int64(end)
		for _, rep := range strings.Split(txt[:end], "WARNING: DATA RACE")[1:] {
			out = append(out, parseRace(rep))
		}
	}
	return out
}

// serverFrame returns the innermost frame of a stack block that is code under test.
func serverFrame(block string) string {
	lines := strings.Split(strings.TrimSpace(block), "\n")
	for i := 1; i+1 < len(lines); i += 2 {
		fn := strings.TrimSpace(lines[i])
		loc := strings.TrimSpace(lines[i+1])
		if !strings.HasPrefix(fn, "github.com/olareg/olareg") {
			continue
		}
		if strings.Contains(loc, "/internal/simrt/") || strings.Contains(loc, "verif_") {
			continue
		}
		fn = strings.TrimPrefix(fn, "github.com/olareg/olareg")
		fn = strings.TrimPrefix(fn, "/")
		fn = strings.TrimSuffix(fn, "()")
		// generic instantiations print their shape: keep the name stable
		if i := strings.Index(fn, "["); i > 0 {
			if j := strings.LastIndex(fn, "]"); j > i {
				fn = fn[:i] + fn[j+1:]
			}
		}
		return fn
	}
	return ""
}

func parseRace(rep string) raceReport {
	blocks := strings.Split(strings.TrimSpace(rep), "\n\n")
	r := raceReport{text: "WARNING: DATA RACE" + rep}
	if len(r.text) > 6000 {
		r.text = r.text[:6000] + "\n..."
	}
	if len(blocks) < 2 {
		r.harness = true
		r.sig = "unparsed report"
		return r
	}
	a, b := serverFrame(blocks[0]), serverFrame(blocks[1])
	if a == "" || b == "" {
		r.harness = true
		top := func(bl string) string {
			l := strings.Split(strings.TrimSpace(bl), "\n")
			if len(l) > 1 {
				return strings.TrimSpace(l[1])
			}
			return "?"
		}
		r.sig = top(blocks[0]) + " | " + top(blocks[1])
		return r
	}
	if b < a {
		a, b = b, a
	}
	r.sig = a + " | " + b
	return r
}

// collectRaces is called after every run of a -race build.
func (x *X) collectRaces() {
	if !simrt.RaceEnabled {
		return
	}
	for _, r := range newRaceReports() {
		if r.harness {
			if x.out.Infra == "" {
				x.out.Infra = "race report without code under test on both sides (harness artefact): " + r.sig + "\n" + r.text
			}
			continue
		}
		x.out.Viol = append(x.out.Viol, Violation{Props: []string{"C13"}, Oracle: "race", Sig: "race:" + r.sig, Detail: r.text, OpIndex: -1})
	}
	x.out.probe("race-detector-on")
}

// runPlanIsolated runs the plan in a fresh process: the race runtime reports each racing pair of stacks only
// once per process, so shrinking a racy plan cannot re-run it here.
func runPlanIsolated(t *testing.T, p *Plan) *RunOut {
	out := &RunOut{Probes: map[string]int{}}
	dir, err := os.MkdirTemp(scratchBase(), "iso-")
	if err != nil {
		out.Infra = err.Error()
		return out
	}
	defer os.RemoveAll(dir)
	c := p.clone()
	c.Fixed = true
	doc := replayDoc{Property: p.Prop, Plan: c, Seed: p.Seed, Tier: p.Tier, Engine: p.Engine}
	b, _ := json.Marshal(doc)
	rf := filepath.Join(dir, "plan.json")
	if err := os.WriteFile(rf, b, 0644); err != nil {
		out.Infra = err.Error()
		return out
	}
	cmd := exec.Command(os.Args[0], "-test.run", "^TestVerif$", "-test.count", "1")
	cmd.Env = append(os.Environ(), "VERIF_REPLAY="+rf, "VERIF_OUT="+filepath.Join(dir, "out.json"), "VERIF_RACELOG="+filepath.Join(dir, "race"),
		"GORACE=halt_on_error=0 log_path="+filepath.Join(dir, "race"), "VERIF_RUNDIR="+dir, "VERIF_PROP=", "VERIF_HASHES=")
	_, _ = cmd.CombinedOutput()
	rb, err := os.ReadFile(filepath.Join(dir, "out.json"))
	if err != nil {
		out.Infra = "isolated run produced no result"
		return out
	}
	var res struct {
		Seen  []Violation `json:"violations_seen"`
		Infra string      `json:"infra"`
		Hash  string      `json:"event_log_hash"`
		Plan  *Plan       `json:"plan"`
	}
	if err := json.Unmarshal(rb, &res); err != nil {
		out.Infra = "isolated run: " + err.Error()
		return out
	}
	out.Viol, out.Infra = res.Seen, res.Infra
	fmt.Sscanf(res.Hash, "%x", &out.EventHash)
	if res.Plan != nil {
		p.Sched, p.MapOrder, p.Entropy, p.FaultS = res.Plan.Sched, res.Plan.MapOrder, res.Plan.Entropy, res.Plan.FaultS
	}
	return out
}
