//go:build go1.25

package olareg

// Garbage collection: C05 (never removes retained or recent content) and C06 (removes exactly the
// garbage, converges, one failing repository does not stop the pass).

import (
	"fmt"
	"os"
	"path/filepath"
	"sort"
	"strings"
	"time"
)

func init() {
	planners["C05"] = planC05
	planners["C06"] = planC06
	preseeders["gcmix"] = preseedGCMix
}

// keepReason classifies why the property obliges retention of d (for signatures).
func (w *World) keepReason(mr *MRepo, d string, now time.Time) string {
	if why := mr.causeOf(d); why != "" {
		return "[" + why + "]"
	}
	grace := w.k.grace()
	isYoung := func(born time.Time) bool { return grace >= 0 && now.Sub(born) < grace-gcTolerance(w.k) }
	var roles []string
	tagged := false
	for _, td := range mr.tags {
		if td == d {
			tagged = true
		}
	}
	x, isMan := mr.mans[d]
	if tagged {
		roles = append(roles, "tagged manifest")
	} else if isMan {
		if !w.k.untagged() {
			roles = append(roles, "untagged manifest while untagged collection is off")
		}
		if isYoung(x.born) {
			roles = append(roles, "manifest younger than the grace period")
		}
	}
	if b, ok := mr.blobs[d]; ok && !isMan && isYoung(b.born) {
		roles = append(roles, "blob younger than the grace period")
	}
	keep := w.m.mustKeep(mr, now)
	for pd, p := range mr.mans {
		if keep[pd] < keepMan || pd == d {
			continue
		}
		for _, c := range p.view.refs {
			if c == d {
				if isIndexMT(p.mt) {
					roles = append(roles, "child of a retained index")
				} else if isMan {
					roles = append(roles, "manifest that is also config/layer of a retained image")
				} else {
					roles = append(roles, "config/layer of a retained image")
				}
			}
		}
	}
	if isMan && x.view.subject != "" && keep[x.view.subject] == keepMan {
		if _, ok := mr.mans[x.view.subject]; ok {
			roles = append(roles, "referrer of a retained subject")
		}
	}
	if why := mr.orphans[d]; why != "" {
		roles = append(roles, why)
	}
	if len(roles) == 0 {
		return "retained"
	}
	sort.Strings(roles)
	// dedupe
	out := roles[:0]
	for i, r := range roles {
		if i == 0 || r != roles[i-1] {
			out = append(out, r)
		}
	}
	return strings.Join(out, " + ")
}

// checkRetained (C05): after a collection opportunity every member of the must-keep closure is still served.
func (w *World) checkRetained() {
	if w.closed {
		return
	}
	now := w.now()
	q := w.quiet
	w.quiet = true
	defer func() { w.quiet = q }()
	for ri, repo := range w.x.p.Repos {
		if w.tainted[repo] {
			continue
		}
		mr := w.m.repo(repo)
		keep := w.m.mustKeep(mr, now)
		for _, d := range sortedKeys(keep) {
			b, isBlob := mr.blobs[d]
			x, isMan := mr.mans[d]
			if !isBlob && !isMan {
				continue // named by a manifest but never pushed here
			}
			if (isBlob && b.maybeGone) || (isMan && keep[d] == keepMan && x.maybeGone) || mr.blobDeleted[d] {
				continue // was legitimately collectable at an earlier opportunity
			}
			if isBlob {
				r := w.do(reqSpec{method: "GET", path: "/v2/" + repo + "/blobs/" + d, repos: []string{repo}})
				if r.Code != 200 || string(r.Body) != string(b.data) {
					if w.m.mustKeep(mr, w.now())[d] == 0 {
						// time went on while the requests of this check were served (slow or stalled handlers): by the time of the
						// answer the grace period was over
						b.maybeGone = true
						w.x.out.probe("aged-out-during-check")
						continue
					}
					w.x.viol([]string{"C05"}, "gc.removed-retained", w.keepReason(mr, d, now), fmt.Sprintf("after a collection, blob %s in %s (%s) answers %d; policy untagged=%v dangling=%v withsubj=%v grace=%s", d, repo, w.keepReason(mr, d, now), r.Code, w.k.untagged(), w.k.refDangling(), w.k.refWithSubj(), w.k.grace()))
					if mr.causeOf(d) != "" {
						mr.resyncOrphans()
						w.x.resync()
						continue
					}
					w.x.stop = true
					return
				}
			}
			if isMan && keep[d] == keepMan {
				r := w.do(reqSpec{method: "GET", path: "/v2/" + repo + "/manifests/" + d, hdr: map[string][]string{"Accept": sortedKeys(x.mts)}, repos: []string{repo}})
				if r.Code != 200 && w.m.mustKeep(mr, w.now())[d] != keepMan {
					x.maybeGone = true
					w.x.out.probe("aged-out-during-check")
					continue
				}
				if r.Code != 200 {
					w.x.viol([]string{"C05"}, "gc.removed-retained", w.keepReason(mr, d, now), fmt.Sprintf("after a collection, manifest %s in %s (%s) answers %d %v; policy untagged=%v dangling=%v withsubj=%v grace=%s", d, repo, w.keepReason(mr, d, now), r.Code, w.errCodes(r), w.k.untagged(), w.k.refDangling(), w.k.refWithSubj(), w.k.grace()))
					if mr.causeOf(d) != "" {
						mr.resyncOrphans()
						w.x.resync()
						continue
					}
					w.x.stop = true
					return
				}
			}
		}
		// every tagged, completely pushed image stays completely pullable
		for _, t := range sortedKeys(mr.tags) {
			d := mr.tags[t]
			if !w.pullable(repo, mr, d, map[string]bool{}) {
				note := ""
				roots := mr.familyRoots()
				for _, root := range sortedKeys(roots) {
					if mr.reaches(d, root) {
						note = " [names a " + roots[root] + "]"
					}
				}
				w.x.viol([]string{"C05"}, "gc.image-not-pullable", "tagged image"+note, fmt.Sprintf("after a collection, the image tagged %s (%s) in %s is no longer completely pullable%s", t, d, repo, note))
				if note != "" {
					mr.resyncOrphans()
					w.x.resync()
					continue
				}
				w.x.stop = true
				return
			}
		}
		// referrers listings of kept subjects still list their kept referrers
		if w.k.referrerOn() {
			for _, s := range sortedKeys(keep) {
				if _, ok := mr.mans[s]; !ok || keep[s] < keepMan {
					continue
				}
				must, _ := mr.referrers(s)
				if len(must) == 0 {
					continue
				}
				_, descs, ok := w.refPage(repo, s, "")
				got := map[string]bool{}
				for _, dd := range descs {
					got[dd.Digest] = true
				}
				for _, a := range must {
					if !ok || !got[a] {
						note := ""
						if why := mr.causeOf(a); why != "" {
							note = " [" + why + "]"
						} else if why := mr.causeOf(s); why != "" {
							note = " [subject: " + why + "]"
						} else if mr.respLost[s] {
							note = " [referrers response collected by policy while artifacts remain]"
						}
						w.x.viol([]string{"C05"}, "gc.referrers-lost", "retained subject"+note, fmt.Sprintf("after a collection, referrers of retained subject %s in %s no longer list %s%s", s, repo, a, note))
						if note != "" {
							mr.resyncOrphans()
							w.x.resync()
							continue
						}
						w.x.stop = true
						return
					}
				}
			}
		}
		_ = ri
	}
	w.x.out.probe("retained-checked")
}

// pullable walks a manifest and fetches everything it names.
func (w *World) pullable(repo string, mr *MRepo, d string, seen map[string]bool) bool {
	if seen[d] {
		return true
	}
	seen[d] = true
	x, ok := mr.mans[d]
	if !ok {
		// a plain blob (config/layer) or a child never pushed as a manifest
		r := w.do(reqSpec{method: "HEAD", path: "/v2/" + repo + "/blobs/" + d, repos: []string{repo}})
		return r.Code == 200 || mr.blobs[d] == nil || mr.blobs[d].maybeGone
	}
	if x.maybeGone || mr.blobDeleted[d] {
		return true
	}
	r := w.do(reqSpec{method: "GET", path: "/v2/" + repo + "/manifests/" + d, hdr: map[string][]string{"Accept": sortedKeys(x.mts)}, repos: []string{repo}})
	if r.Code != 200 {
		return false
	}
	for _, c := range x.view.refs {
		if b, ok := mr.blobs[c]; ok && (b.maybeGone || mr.blobDeleted[c]) {
			continue
		}
		if !w.pullable(repo, mr, c, seen) {
			return false
		}
	}
	return true
}

// opGCPass (C06): one forced store-wide pass removes the must-remove set everywhere, leaves no dangling entry,
// removes emptied repositories when configured, and a second pass is a no-op.
func (w *World) opGCPass(op Op) {
	if w.closed || w.k.readOnly() {
		return
	}
	w.settle()
	now := w.now()
	type want struct {
		blobs, mans map[string]bool
	}
	wants := map[string]want{}
	for _, repo := range w.x.p.Repos {
		if w.tainted[repo] {
			continue
		}
		mr := w.m.repo(repo)
		b, m := w.m.mustRemove(mr, now)
		// content the history already could not vouch for is not demanded either way
		wants[repo] = want{b, m}
	}
	w.markCollectable()
	errPass := w.forceGCPass(time.Time{})
	_ = errPass
	w.markCollectable()
	w.x.out.probe("gc-pass")
	q := w.quiet
	w.quiet = true
	defer func() { w.quiet = q }()
	left := map[string][]string{}
	for _, repo := range w.x.p.Repos {
		wt, ok := wants[repo]
		if !ok {
			continue
		}
		for _, d := range sortedKeys(wt.blobs) {
			r := w.do(reqSpec{method: "HEAD", path: "/v2/" + repo + "/blobs/" + d, repos: []string{repo}})
			gone := r.Code == 404
			if gone && w.k.Store == "dir" {
				if _, err := os.Stat(blobPath(w.root, repo, d)); err == nil {
					gone = false
				}
			}
			if !gone {
				left[repo] = append(left[repo], d)
			}
		}
		for _, d := range sortedKeys(wt.mans) {
			r := w.do(reqSpec{method: "HEAD", path: "/v2/" + repo + "/manifests/" + d, hdr: map[string][]string{"Accept": {mtOCIIndex, mtOCIManifest, mtDockList, mtDockManifest}}, repos: []string{repo}})
			if r.Code == 200 {
				left[repo] = append(left[repo], "manifest "+d)
			}
		}
	}
	if len(left) > 0 {
		w.x.out.probe("garbage-left")
		// was the repository skipped by the pass? collect it directly and look again
		for _, repo := range sortedKeys(left) {
			mr := w.m.repo(repo)
			// content of the known families (a manifest that only lives in a child list the server no longer has) is neither
			// served nor collected: reported under the family, and the run goes on
			family := ""
			for _, it := range left[repo] {
				if why := mr.causeOf(strings.TrimPrefix(it, "manifest ")); why != "" {
					family = why
				}
			}
			if family != "" {
				w.x.viol([]string{"C06"}, "gc.garbage-left", w.garbageKind(mr, left[repo][0])+" ["+family+"]", fmt.Sprintf("one collection pass left %v in %s [%s]", left[repo], repo, family))
				mr.resyncOrphans()
				w.x.resync()
				for _, it := range left[repo] {
					d := strings.TrimPrefix(it, "manifest ")
					delete(wants[repo].blobs, d)
					delete(wants[repo].mans, d)
				}
				continue
			}
			what := w.garbageKind(mr, left[repo][0])
			_ = w.forceGC(repo)
			still := false
			d := strings.TrimPrefix(left[repo][0], "manifest ")
			r := w.do(reqSpec{method: "HEAD", path: "/v2/" + repo + "/blobs/" + d, repos: []string{repo}})
			if r.Code == 200 {
				still = true
			}
			bad := w.unhealthyRepos()
			if !still && len(bad) > 0 {
				w.x.viol([]string{"C06"}, "gc.pass-aborted", "garbage of a healthy repository survives the pass while another repository fails", fmt.Sprintf("one store-wide pass left %v in %s although its grace period has elapsed; collecting %s on its own removes it; repositories whose collection fails: %v", left[repo], repo, repo, bad))
			} else {
				w.x.viol([]string{"C06"}, "gc.garbage-left", what, fmt.Sprintf("one collection pass left %v in %s (%s); policy untagged=%v dangling=%v withsubj=%v grace=%s", left[repo], repo, what, w.k.untagged(), w.k.refDangling(), w.k.refWithSubj(), w.k.grace()))
			}
			w.x.stop = true
			return
		}
	}
	// removed content is gone from the model
	for repo, wt := range wants {
		mr := w.m.repo(repo)
		for d := range wt.mans {
			w.deleteManifest(mr, d)
		}
		for d := range wt.blobs {
			delete(mr.blobs, d)
		}
	}
	// no index entry without backing content, no dangling tag
	w.quiet = q
	if w.k.Store == "dir" {
		for _, repo := range w.x.p.Repos {
			if !w.tainted[repo] {
				w.checkRepoLayout(repo, true)
			}
		}
	}
	for ri, repo := range w.x.p.Repos {
		if w.tainted[repo] {
			continue
		}
		for _, t := range sortedKeys(w.m.repo(repo).tags) {
			w.opGet(Op{K: "get", Mode: "tag", Repo: ri, Tag: t, Accept: "all"})
		}
	}
	// emptied repositories
	if w.k.Store == "dir" {
		for _, repo := range w.x.p.Repos {
			if w.tainted[repo] {
				continue
			}
			mr := w.m.repo(repo)
			empty := len(mr.mans) == 0 && len(mr.blobs) == 0 && w.openCount(repo) == 0
			if !empty || !w.k.emptyRepo() {
				continue
			}
			for _, f := range []string{"index.json", "oci-layout", "blobs", "_uploads"} {
				if _, err := os.Stat(filepath.Join(w.root, repo, f)); err == nil {
					note := ""
					if len(mr.staleRef) > 0 {
						note = " [artifact deleted after its blob]"
					}
					w.x.viol([]string{"C06"}, "gc.empty-repo-left", f+note, fmt.Sprintf("repository %s holds nothing after the pass but %s/%s still exists (EmptyRepo is on)%s", repo, repo, f, note))
					if note != "" {
						w.x.resync()
					}
					break
				}
			}
		}
	}
	if len(w.x.out.Viol) > 0 && !w.x.allResynced {
		return
	}
	// a second pass changes nothing
	pre := map[string]*obs{}
	for _, repo := range w.x.p.Repos {
		if !w.tainted[repo] {
			pre[repo] = w.observe(repo)
		}
	}
	var tree0 map[string]fileInfo
	if w.root != "" {
		tree0 = scanTree(w.root)
	}
	_ = w.forceGCPass(time.Time{})
	for _, repo := range sortedKeys(pre) {
		post := w.observe(repo)
		var diffs []string
		for k, v := range pre[repo].items {
			if post.items[k] != v {
				diffs = append(diffs, fmt.Sprintf("%s: %q -> %q", k, v, post.items[k]))
			}
		}
		if len(diffs) > 0 {
			sort.Strings(diffs)
			kind, _, _ := strings.Cut(diffs[0], " ")
			w.x.viol([]string{"C06"}, "gc.not-converged", "API state changed by a second pass: "+kind, fmt.Sprintf("a second collection pass changed %s: %s", repo, strings.Join(diffs, "; ")))
			return
		}
	}
	if tree0 != nil {
		if d := diffTrees(tree0, scanTree(w.root), false); len(d) > 0 {
			d2 := d[:0]
			for _, e := range d {
				// unhealthy repositories are not judged
				skip := false
				if strings.HasPrefix(e, "removed ") {
					// an empty directory holds nothing: removing it on a later pass (a parent of a nested repository) changes no content
					pth := strings.TrimPrefix(e, "removed ")
					if tree0[pth].dir {
						emptyDir := true
						for other := range tree0 {
							if strings.HasPrefix(other, pth+"/") && !tree0[other].dir {
								emptyDir = false
							}
						}
						skip = emptyDir
					}
				}
				for _, bad := range w.unhealthyRepos() {
					if strings.Contains(e, " "+bad+"/") || strings.HasSuffix(e, " "+bad) {
						skip = true
					}
				}
				if !skip {
					d2 = append(d2, e)
				}
			}
			if len(d2) > 0 {
				sort.Strings(d2)
				kind, _, _ := strings.Cut(d2[0], " ")
				w.x.viol([]string{"C06"}, "gc.not-converged", "files changed by a second pass: "+kind, fmt.Sprintf("a second collection pass changed files: %v", d2))
			}
		}
	}
}

// opGCWait (C06, "is not starved"): nothing is forced. After the last change the harness waits for the grace period plus
// two ticks; whatever was garbage by the time of the last-but-one tick must be gone: the timer-driven pass visits every
// repository that changed since the grace period before its previous tick.
func (w *World) opGCWait(op Op) {
	if w.closed || w.k.readOnly() || w.k.freq() <= 0 {
		return
	}
	w.settle()
	wait := 2*w.k.freq() + time.Second
	if g := w.k.grace(); g > 0 {
		wait += g
	}
	w.opSleep(wait.Milliseconds())
	w.settle()
	now := w.now()
	asOf := now.Add(-w.k.freq() - 500*time.Millisecond)
	type want struct{ blobs, mans map[string]bool }
	wants := map[string]want{}
	for _, repo := range w.x.p.Repos {
		if w.tainted[repo] {
			continue
		}
		b, m := w.m.mustRemove(w.m.repo(repo), asOf)
		wants[repo] = want{b, m}
	}
	w.markCollectable()
	w.x.out.probe("gc-wait")
	q := w.quiet
	w.quiet = true
	defer func() { w.quiet = q }()
	for _, repo := range w.x.p.Repos {
		wt, ok := wants[repo]
		if !ok {
			continue
		}
		mr := w.m.repo(repo)
		var left []string
		for _, d := range sortedKeys(wt.blobs) {
			r := w.do(reqSpec{method: "HEAD", path: "/v2/" + repo + "/blobs/" + d, repos: []string{repo}})
			gone := r.Code == 404
			if gone && w.k.Store == "dir" {
				if _, err := os.Stat(blobPath(w.root, repo, d)); err == nil {
					gone = false
				}
			}
			if !gone {
				left = append(left, d)
			}
		}
		for _, d := range sortedKeys(wt.mans) {
			r := w.do(reqSpec{method: "HEAD", path: "/v2/" + repo + "/manifests/" + d, hdr: map[string][]string{"Accept": {mtOCIIndex, mtOCIManifest, mtDockList, mtDockManifest}}, repos: []string{repo}})
			if r.Code == 200 {
				left = append(left, "manifest "+d)
			}
		}
		if len(left) > 0 {
			w.x.viol([]string{"C06"}, "gc.starved", w.garbageKind(mr, left[0]), fmt.Sprintf("%s after the last change (grace %s, a tick every %s) the timer-driven collection still has not removed %v from %s", wait, w.k.grace(), w.k.freq(), left, repo))
			w.x.stop = true
			return
		}
		if len(wt.blobs)+len(wt.mans) > 0 {
			w.x.out.probe("gc-wait-collected")
		}
		for d := range wt.mans {
			w.deleteManifest(mr, d)
		}
		for d := range wt.blobs {
			delete(mr.blobs, d)
		}
	}
}

func (w *World) unhealthyRepos() []string {
	var out []string
	for _, r := range w.x.p.Repos {
		if w.tainted[r] {
			out = append(out, r)
		}
	}
	return out
}

func (w *World) garbageKind(mr *MRepo, item string) string {
	if strings.HasPrefix(item, "manifest ") {
		d := strings.TrimPrefix(item, "manifest ")
		if x, ok := mr.mans[d]; ok && x.view.subject != "" {
			return "referrer whose subject was removed"
		}
		return "untagged manifest"
	}
	if _, ok := mr.mans[item]; ok {
		return "blob of an untagged manifest"
	}
	return "unreferenced blob"
}

// ---------------------------------------------------------------------------------------------
// generator

// gcGraph builds a random object graph and returns the manifest objects (roots first).
func (g *gen) gcGraph() (images, indexes, arts []int) {
	ni := g.r.between(2, 4)
	for i := 0; i < ni; i++ {
		share := -1
		if len(images) > 0 && g.r.chance(50) {
			share = images[g.r.intn(len(images))]
		}
		images = append(images, g.newImage(-1, share))
	}
	// alias: an image one of whose layers is the manifest blob of another image
	if g.r.chance(35) && len(images) >= 2 {
		o := &Obj{Kind: "image", Subject: -1, Config: g.p.Objs[images[0]].Config, Layers: []int{images[1]}, MT: mtOCIManifest, Annot: map[string]string{"alias": "1"}}
		g.p.Objs = append(g.p.Objs, o)
		images = append(images, len(g.p.Objs)-1)
	}
	if g.r.chance(70) {
		indexes = append(indexes, g.newIndex([]int{images[0]}, -1))
	}
	if g.r.chance(40) && len(images) > 1 {
		indexes = append(indexes, g.newIndex([]int{images[0], images[1]}, -1)) // shares a child
	}
	if g.r.chance(30) && len(indexes) > 0 {
		indexes = append(indexes, g.newIndex([]int{indexes[0]}, -1)) // nested
	}
	na := g.r.between(0, 4)
	for i := 0; i < na; i++ {
		var s int
		switch g.r.intn(5) {
		case 0:
			if len(indexes) > 0 {
				s = indexes[g.r.intn(len(indexes))]
				break
			}
			fallthrough
		case 1:
			if len(arts) > 0 {
				s = arts[g.r.intn(len(arts))] // referrer of a referrer
				break
			}
			fallthrough
		default:
			s = images[g.r.intn(len(images))]
		}
		a := g.newImage(s, -1)
		g.p.Objs[a].SubjAlgo = ""
		arts = append(arts, a)
	}
	if g.r.chance(30) {
		g.p.Objs = append(g.p.Objs, &Obj{Kind: "image", Subject: -1, SubjFake: digestOf("sha256", []byte("missing subject")), Config: g.p.Objs[images[0]].Config, AT: "application/vnd.example.sig", MT: mtOCIManifest})
		arts = append(arts, len(g.p.Objs)-1)
	}
	// in graph profiles manifests refer to each other with sha256 (other algorithms are covered by C01/C10)
	for _, o := range g.p.Objs {
		if o.isManifest() {
			o.RefAlgo, o.SubjAlgo = "", ""
		}
	}
	return
}

func (g *gen) gcHistoryOp(repo int, images, indexes, arts []int, extraBlob int) {
	all := append(append(append([]int{}, images...), indexes...), arts...)
	switch g.r.intn(14) {
	case 0, 1, 2:
		m := all[g.r.intn(len(all))]
		tag := ""
		if g.r.chance(55) {
			tag = g.r.str("v1", "v2", "latest", "art", "idx")
			if g.fewTags {
				tag = g.r.str("t", "t0", "tx")
			}
		}
		g.pushManifest(repo, m, tag, false)
		// graph profiles push with plain sha256 references
		g.ops[len(g.ops)-1].Algo, g.ops[len(g.ops)-1].QD = "", ""
	case 3:
		g.add(g.blobOp(repo, extraBlob, true))
		g.markBlob(repo, extraBlob)
	case 4, 5:
		g.add(Op{K: "del", Mode: "tag", Repo: repo, Tag: g.anyTag(repo)})
	case 6, 7:
		if m, ok := g.pushedMan(repo); ok {
			g.add(Op{K: "del", Mode: "man", Repo: repo, Obj: m})
			delete(g.mansIn[repo], m)
		}
	case 8:
		if g.r.chance(40) {
			o := g.p.Objs[images[0]]
			g.add(Op{K: "del", Mode: "blob", Repo: repo, Obj: g.r.pick(extraBlob, o.Config)})
		} else if m, ok := g.pushedMan(repo); ok && g.r.chance(50) {
			// the blob endpoint removes the content of an untagged manifest: its index entry has nothing behind it any more
			tagged := false
			for _, o := range g.tagsIn[repo] {
				tagged = tagged || o == m
			}
			if !tagged {
				g.add(Op{K: "del", Mode: "blob", Repo: repo, Obj: m})
			}
		}
	case 9:
		// tag move
		if m, ok := g.pushedMan(repo); ok {
			g.pushManifest(repo, m, g.anyTag(repo), false)
			g.ops[len(g.ops)-1].Algo, g.ops[len(g.ops)-1].QD = "", ""
		}
	case 10:
		// only the blobs of an image, the manifest follows later (a collection may land in between)
		o := g.p.Objs[images[g.r.intn(len(images))]]
		g.ensureBlob(repo, o.Config)
		for _, l := range o.Layers {
			g.ensureBlob(repo, l)
		}
	case 11:
		g.add(Op{K: "sess", Act: "post", Repo: repo, Sess: g.nextSess(), Obj: extraBlob})
	default:
		g.add(g.readOp(repo))
	}
}

func planC05(prop string, seed uint64, tier string, idx int) *Plan {
	if idx%12 == 11 {
		// few index entries reworked over and over (the tag profile of C03), untagged manifests collected at once
		p := planC03(prop, seed, tier, 3)
		p.Profile = "gc safety: three tags on two manifests, untagged manifests collected"
		var ops []Op
		for _, op := range p.Clients[0] {
			ops = append(ops, op)
			if op.K == "gc" {
				ops = append(ops, Op{K: "retained"})
			}
		}
		p.Clients[0] = append(ops, Op{K: "gc", Repo: -1}, Op{K: "retained"})
		p.Extra["nontrivial"] = []any{"retained-checked"}
		return p
	}
	g := newGen(seed, tier)
	g.p.Profile = "gc safety"
	g.repos(g.r.between(1, 3))
	g.storeKnob("dir", "dir", "mem")
	natural := idx%2 == 0
	g.gcKnobs(natural)
	k := &g.p.Knobs
	if natural {
		g.p.Profile = "gc safety (natural ticks)"
		k.GCFreqMs = int64(g.r.pick(20, 50, 1000, 60000))
	}
	slowUp := natural && idx%6 == 2
	if slowUp {
		g.p.Profile = "gc safety (natural ticks), uploads that take longer than the grace period"
		k.GCFreqMs = int64(g.r.pick(200, 1000, 5000))
		k.GCGraceMs = k.GCFreqMs * int64(g.r.pick(2, 5, 12)) // (a grace period of thousands of ticks would not fit a run)
		g.storeKnob("mem", "mem", "dir")
	}
	images, indexes, arts := g.gcGraph()
	extra := g.newBlob(g.r.between(1, 200))
	if slowUp {
		extra = g.newBlob(g.r.between(20, 200))
	}
	n := g.scale(g.r.between(8, 24))
	for i := 0; i < n; i++ {
		repo := g.r.intn(g.nrepos())
		if slowUp && (i == n/4 || i == 3*n/4) {
			gr, sz := k.grace().Milliseconds(), g.p.Objs[extra].Size
			// (Ms is the pause between two pieces of the body: four or five pieces, none of them a grace period apart)
			g.add(Op{K: "blob", Mode: "chunk", Repo: repo, Obj: extra, Sess: g.nextSess(), Chunks: []int{sz}, B: max(1, sz/4), Ms: gr * int64(g.r.pick(4, 6, 8)) / 10})
			g.markBlob(repo, extra)
			g.add(Op{K: "sleep", Ms: min(gr/2, 2*k.freq().Milliseconds()+10)})
			g.add(Op{K: "retained"})
		}
		switch g.r.intn(10) {
		case 0:
			if natural {
				g.add(Op{K: "sleep", Ms: g.sleepMs()})
			} else {
				g.add(Op{K: "gc", Repo: g.r.pick(-1, repo, repo)})
			}
			g.add(Op{K: "retained"})
		case 1:
			g.add(Op{K: "sleep", Ms: g.sleepMs()})
			if !natural {
				g.add(Op{K: "gc", Repo: g.r.pick(-1, repo)})
			}
			g.add(Op{K: "retained"})
		case 2:
			if k.Store != "mem" && g.r.chance(30) {
				g.add(Op{K: "restart"})
				g.add(Op{K: "retained"})
			} else if gr := k.grace().Milliseconds(); natural && gr > 0 && gr <= 60000 && gr <= 100*k.freq().Milliseconds() && g.r.chance(50) {
				// an upload that takes longer than the grace period (its pieces keep the session alive): the blob is as old as
				// its completion, not as its session
				sz := g.p.Objs[extra].Size
				g.add(Op{K: "blob", Mode: "chunk", Repo: repo, Obj: extra, Sess: g.nextSess(), Chunks: []int{sz}, B: max(1, sz/4), Ms: gr * int64(g.r.pick(4, 6, 8)) / 10})
				g.markBlob(repo, extra)
				g.add(Op{K: "sleep", Ms: min(gr/2, 2*k.freq().Milliseconds()+10)})
				g.add(Op{K: "retained"})
			}
		default:
			g.gcHistoryOp(repo, images, indexes, arts, extra)
		}
	}
	if !natural {
		g.add(Op{K: "gc", Repo: -1})
	} else {
		g.add(Op{K: "sleep", Ms: g.sleepMs()})
	}
	g.add(Op{K: "retained"})
	p := g.finish(prop, "retained-checked")
	if !natural && idx%6 == 3 && k.Store == "dir" {
		// collection passes that meet read errors (fault)
		p.Profile += " + passes under read errors"
		// (followed by a restart: what the pass has removed is what a fresh server on the directory no longer has; what a
		// server that met read errors shows in the meantime is another matter)
		rate := g.r.pick(300, 1000, 3000)
		var ops []Op
		for _, op := range p.Clients[0] {
			if op.K == "gc" && g.r.chance(70) {
				op.S, op.A = "faulty", rate
				ops = append(ops, op, Op{K: "restart"})
				continue
			}
			ops = append(ops, op)
		}
		p.Clients[0] = ops
	}
	if !natural && idx%12 == 5 && k.Store == "dir" {
		p.Profile += ", then a memory store over the directory"
		at := len(p.Clients[0]) / 3
		p.Clients[0] = append(append(append([]Op{}, p.Clients[0][:at]...), Op{K: "restart", S: "memdir"}), p.Clients[0][at:]...)
	}
	if natural && idx%6 == 4 {
		// stalled handlers and collection passes (fault): a goroutine stops for seconds at some scheduling point, holding
		// whatever it holds, while the ticker goes on
		p.Strat.StallPer, p.Strat.StallMs, p.Strat.StallMax = g.r.pick(5, 15, 40), g.r.pick(700, 2500, 10000, 70000), g.r.pick(1, 2, 4)
		if f := k.freq().Milliseconds(); f > 0 && int64(p.Strat.StallMs) > 200*f {
			p.Strat.StallMs = int(200 * f) // (a stall of thousands of ticks would not fit a run)
		}
		p.Profile += " + stalled goroutines"
	}
	return p
}

// preseedGCMix adds unhealthy repositories to the store: corrupt index.json, index.json as a directory, removed directory.
func preseedGCMix(w *World) {
	p := w.x.p
	kinds, _ := p.Extra["gcmix"].([]any)
	for i, repo := range p.Repos {
		if i >= len(kinds) {
			break
		}
		kind, _ := kinds[i].(string)
		if kind == "" || kind == "healthy" {
			continue
		}
		mm := w.m
		w.m = newModel(w.k)
		var entries []seedEntry
		for j, ob := range p.Objs {
			if ob.Kind == "blob" && j%3 == 0 {
				entries = append(entries, seedEntry{obj: j, skipIndex: true})
			}
		}
		o := seedOpts{age: 240 * time.Hour, converted: true}
		switch kind {
		case "garbage":
			o.badIndex = "garbage"
		case "indexdir":
			o.badIndex = "dir"
		case "noblobs":
			entries = nil
		}
		w.seedRepo(w.root, repo, entries, o)
		w.m = mm
		w.tainted[repo] = true
	}
}

func planC06(prop string, seed uint64, tier string, idx int) *Plan {
	g := newGen(seed, tier)
	g.p.Profile = "gc exactness"
	g.repos(g.r.between(1, 3))
	g.storeKnob("dir", "dir", "mem")
	g.gcKnobs(false)
	k := &g.p.Knobs
	k.GCGraceMs = int64(g.r.pick(-1, -1, 1000, 60000))
	k.Untagged = g.r.pick(1, 1, 0, -1)
	if idx%3 == 2 && k.Store == "dir" && len(g.p.Repos) > 1 {
		g.p.Profile = "gc exactness + unhealthy repositories"
		k.Preseed = "gcmix"
		kinds := make([]any, len(g.p.Repos))
		for i := range kinds {
			kinds[i] = "healthy"
		}
		bad := g.r.intn(len(g.p.Repos))
		kinds[bad] = g.r.str("garbage", "indexdir", "removed", "noblobs")
		if kinds[bad] == "removed" {
			// removing a directory takes nested repositories with it: only a repository without nested ones is removed
			kinds[bad] = "healthy"
			for i, r := range g.p.Repos {
				leaf := true
				for _, o := range g.p.Repos {
					if strings.HasPrefix(o, r+"/") {
						leaf = false
					}
				}
				if leaf {
					bad = i
				}
			}
			kinds[bad] = "removed"
		}
		g.p.Extra["gcmix"] = kinds
	}
	natural := idx%3 == 1
	if natural {
		// nothing is forced: the ticker has to get to every repository on its own
		g.p.Profile = "gc exactness (timer-driven passes only)"
		k.GCFreqMs = int64(g.r.pick(900, 5000, 60000, 900000))
		k.GCGraceMs = int64(g.r.pick(-1, 1200, 1200, 60000))
		if k.GCFreqMs >= 60000 && g.r.chance(30) {
			k.GCGraceMs = int64(g.r.pick(0, 3600000)) // the default, one hour (with a short tick the wait would be thousands of ticks)
		}
	}
	images, indexes, arts := g.gcGraph()
	extra := g.newBlob(g.r.between(20, 200))
	// touch every repository so the store knows it
	for r := range g.p.Repos {
		g.add(Op{K: "tags", Repo: r})
	}
	n := g.scale(g.r.between(8, 22))
	overDir := idx%9 == 0 && k.Store == "dir" && k.Preseed == ""
	if overDir {
		g.p.Profile = "gc exactness: a directory store fills the directory, a memory store over it goes on"
	}
	foreign := idx%3 == 0 && k.Store == "dir" && !overDir && g.r.chance(40)
	if foreign {
		g.p.Profile += " + a foreign index entry with a malformed digest"
	}
	for i := 0; i < n; i++ {
		repo := g.r.intn(g.nrepos())
		if overDir && i == n/3 {
			g.add(Op{K: "restart", S: "memdir"})
		}
		if foreign && (i == n/2 || i == n-2) {
			g.add(Op{K: "badentry", Repo: repo})
		}
		switch g.r.intn(12) {
		case 11:
			if natural {
				// an upload that takes longer than the grace period plus a tick (its body arrives in pieces that keep the
				// session alive): only the completion tells the collection that the repository changed
				gap := k.freq().Milliseconds()
				if gr := k.grace().Milliseconds(); gr > 0 {
					gap = gr * 8 / 10
				}
				sz := g.p.Objs[extra].Size
				g.add(Op{K: "blob", Mode: "chunk", Repo: repo, Obj: extra, Sess: g.nextSess(), Chunks: []int{sz}, B: max(1, sz/5), Ms: gap})
				g.markBlob(repo, extra)
				break
			}
			g.gcHistoryOp(repo, images, indexes, arts, extra)
		case 0:
			if natural {
				g.add(Op{K: "gcwait"})
				break
			}
			if k.grace() > 0 {
				g.add(Op{K: "sleep", Ms: k.grace().Milliseconds() * int64(g.r.pick(5, 12, 20, 30)) / 10})
			}
			g.add(Op{K: "gcpass"})
		case 1:
			if kinds, ok := g.p.Extra["gcmix"].([]any); ok && g.r.chance(50) {
				for r, kk := range kinds {
					if kk == "removed" {
						g.add(Op{K: "rmrepo", Repo: r})
					}
				}
			}
		default:
			g.gcHistoryOp(repo, images, indexes, arts, extra)
		}
	}
	if natural {
		g.add(Op{K: "gcwait"})
		return g.finish(prop, "gc-wait")
	}
	if k.grace() > 0 {
		g.add(Op{K: "sleep", Ms: k.grace().Milliseconds() * 3})
	}
	g.add(Op{K: "gcpass"})
	return g.finish(prop, "gc-pass")
}
