//go:build go1.25

package olareg

// Adversarial requests (C15) and multi-repository isolation probes (C16).

import (
	"fmt"
	"net/http"
	"net/url"
	"path"
	"path/filepath"
	"strings"

	"github.com/olareg/olareg/internal/simrt"
)

func rawRequest(w *World, op Op) {
	rq := op.Raw
	hdr := http.Header{}
	for k, v := range rq.Hdr {
		for _, x := range v {
			hdr.Add(k, x)
		}
	}
	rs := reqSpec{method: rq.Method, path: rq.Path, query: rq.Query, hdr: hdr, addr: rq.Addr}
	if strings.HasPrefix(rq.Path, "{loc") {
		// a request aimed at the session the server announced last
		ph, fallback, _ := strings.Cut(rq.Path, "}")
		rs.path = fallback
		if w.lastLoc != "" {
			lp, lq, _ := strings.Cut(w.lastLoc, "?")
			rs.path = lp
			if ph == "{loc" && lq != "" {
				if rs.query != "" {
					rs.query = lq + "&" + rs.query
				} else {
					rs.query = lq
				}
			}
			simrt.Probe("fuzz.live-session")
		}
	}
	if len(rq.Body) > 0 || rq.CL != 0 {
		rs.body = append([]byte{}, rq.Body...)
	}
	if rq.CL != 0 {
		cl := rq.CL
		rs.cl = &cl
	}
	// which repositories could this address? every prefix of the path that is a repository name
	up, err := url.PathUnescape(rs.path)
	if err != nil {
		up = rs.path
	}
	up = path.Clean("/" + up)
	el := strings.Split(strings.Trim(up, "/"), "/")
	for i := 2; i <= len(el); i++ {
		cand := strings.Join(el[1:i], "/")
		if reRepo.MatchString(cand) {
			rs.repos = append(rs.repos, cand)
		}
	}
	if f := queryGet(rq.Query, "from"); f != "" {
		rs.repos = append(rs.repos, f)
	}
	fsBefore := len(w.x.sim.FS.Log)
	r := w.do(rs)
	if r.Panicked {
		return
	}
	w.x.mix(uint64(r.Code))
	if op.S == "reserved" && w.k.Store == "dir" {
		// the directory store cannot hold repositories named like layout entries
		if r.Code != 400 || (rq.Method == "GET" && !hasCode(w.errCodes(r), "NAME_INVALID")) {
			// (C10 too: a repository inside blobs/ of another one makes that one an invalid layout)
			w.x.viol([]string{"C15", "C16", "C10"}, "req.error-code", "reserved name: not 400 NAME_INVALID", fmt.Sprintf("%s %s answered %d %v", rq.Method, rq.Path, r.Code, w.errCodes(r)))
		}
	}
	// the same for the source of a mount: a from= outside the grammar never reaches the store (the request goes on as an
	// ordinary upload), so nothing below the directory that name would stand for is touched
	if f := queryGet(rq.Query, "from"); f != "" && !reRepo.MatchString(f) && w.root != "" {
		fp := filepath.Join(w.root, f)
		related := fp == w.root || strings.HasPrefix(w.root+"/", fp+"/")
		for _, rp := range rs.repos {
			if rp != f {
				tp := filepath.Join(w.root, rp)
				related = related || strings.HasPrefix(tp+"/", fp+"/") || strings.HasPrefix(fp+"/", tp+"/")
			}
		}
		if !related {
			for _, e := range w.x.sim.FS.Log[fsBefore:] {
				if e.Task == "main" && (e.Path == fp || strings.HasPrefix(e.Path, fp+"/")) {
					w.x.viol([]string{"C15", "C16"}, "req.routed-bad-name", "mount source", fmt.Sprintf("%s %s?%s: the mount source %q is outside the grammar and reached storage: %s %s (answer %d)", rq.Method, rs.path, rs.query, f, e.Op, e.Path, r.Code))
					break
				}
			}
		}
		simrt.Probe("fuzz.mount-source-outside-grammar")
	}
	// a path whose repository part is not in the OCI grammar must not be routed: 404 and no store access
	if repoPart, ok := repoPartOf(up); ok && !reRepo.MatchString(repoPart) {
		if r.Code != 404 && r.Code != 400 && r.Code != 405 && r.Code != 301 {
			w.x.viol([]string{"C15", "C16"}, "req.routed-bad-name", r.route, fmt.Sprintf("%s %s (repository part %q outside the grammar) answered %d", rq.Method, rq.Path, repoPart, r.Code))
		}
		for _, e := range w.x.sim.FS.Log[fsBefore:] {
			if e.Task == "main" {
				w.x.viol([]string{"C15", "C16"}, "req.routed-bad-name", "storage access", fmt.Sprintf("%s %s (repository part %q outside the grammar) reached storage: %s %s", rq.Method, rq.Path, repoPart, e.Op, e.Path))
				break
			}
		}
	}
}

func queryGet(raw, key string) string {
	v, err := url.ParseQuery(raw)
	if err != nil {
		return ""
	}
	return v.Get(key)
}

// repoPartOf extracts what the routing grammar would treat as the repository name of a cleaned path.
func repoPartOf(p string) (string, bool) {
	el := strings.Split(strings.Trim(p, "/"), "/")
	if len(el) < 4 || el[0] != "v2" {
		return "", false
	}
	n := len(el)
	switch {
	case el[n-2] == "manifests", el[n-2] == "referrers":
		return strings.Join(el[1:n-2], "/"), true
	case n >= 5 && el[n-3] == "blobs" && el[n-2] == "uploads":
		return strings.Join(el[1:n-3], "/"), true
	case el[n-2] == "blobs":
		return strings.Join(el[1:n-2], "/"), true
	case el[n-2] == "tags" && el[n-1] == "list":
		return strings.Join(el[1:n-2], "/"), true
	}
	return "", false
}
