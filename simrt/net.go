//go:build go1.25

package simrt

// Simulated listener and signals for code that runs a whole server process (cmd/olareg serve):
// http.Server.ListenAndServe / Shutdown and signal.Notify are rewritten to the functions below.
// No socket is opened; the harness delivers requests to the handler of the listening server in the
// client's own task, which is what a connection goroutine would do, and a "signal" is a value sent
// to the channels the program registered.

import (
	"context"
	"errors"
	"fmt"
	"net/http"
	"os"
	"time"
)

type httpListener struct {
	srv      *http.Server
	mu       Mutex
	cond     *Cond
	inflight int
	closing  bool
	closed   bool
	late     map[string]bool // connections (remote addresses) that already sent their one request after Shutdown began
	done     chan struct{}   // closed when the listener is closed: Serve returns
}

// ErrRefused is what a client gets when nothing listens on the address (any more).
var ErrRefused = errors.New("simrt: connection refused")

//go:norace
func (s *Sim) listener(addr string) *httpListener {
	for _, l := range s.listeners {
		if l.srv.Addr == addr && !l.closed {
			return l
		}
	}
	return nil
}

// HTTPListenAndServe replaces (*http.Server).ListenAndServe[TLS]: it registers the server under its address and
// blocks until HTTPShutdown.
func HTTPListenAndServe(srv *http.Server) error {
	s := S
	if s.listener(srv.Addr) != nil {
		return fmt.Errorf("listen tcp %s: bind: address already in use", srv.Addr)
	}
	l := &httpListener{srv: srv, done: make(chan struct{})}
	l.cond = NewCond(&l.mu)
	s.listeners = append(s.listeners, l)
	Probe("listen")
	// (a real wait, like a sleep: a task that accepts connections is not "blocked on the program's synchronisation", the
	// simulation is quiescent while it waits)
	t := Release()
	<-l.done
	Acquire(t)
	return http.ErrServerClosed
}

// HTTPShutdown replaces (*http.Server).Shutdown: no new request is accepted, requests in flight are waited for
// (polling like the real one) until the context is done.
func HTTPShutdown(srv *http.Server, ctx context.Context) error {
	s := S
	var l *httpListener
	for _, x := range s.listeners {
		if x.srv == srv && !x.closed {
			l = x
		}
	}
	if l == nil {
		return nil
	}
	l.mu.Lock()
	l.closing = true
	poll := time.Millisecond
	for l.inflight > 0 {
		l.mu.Unlock()
		if ctx.Err() != nil {
			// like the real one: the listener is closed, connections in flight are left alone
			l.mu.Lock()
			l.closed = true
			close(l.done)
			l.mu.Unlock()
			return ctx.Err()
		}
		Sleep(poll)
		if poll < 500*time.Millisecond {
			poll *= 2
		}
		l.mu.Lock()
	}
	l.closed = true
	close(l.done)
	l.mu.Unlock()
	return nil
}

// InFlight is the number of requests that are being handled right now (by any listener, open or shut down).
func InFlight() int {
	n := 0
	for _, l := range S.listeners {
		l.mu.Lock()
		n += l.inflight
		l.mu.Unlock()
	}
	return n
}

// Listening reports whether a server accepts requests on addr.
func Listening(addr string) bool {
	l := S.listener(addr)
	return l != nil && !l.closing
}

// Deliver hands one request to the server listening on addr, inside the calling task.
func Deliver(addr string, w http.ResponseWriter, req *http.Request) error {
	l := S.listener(addr)
	if l == nil {
		return ErrRefused
	}
	l.mu.Lock()
	if l.closed {
		l.mu.Unlock()
		return ErrRefused
	}
	if l.closing {
		// Shutdown closes the listener and the idle connections, and waits for the others. A connection the client opened
		// before (new, or idle with its next request already on the way) still gets that one request handled: the
		// connections are the remote addresses, each has one such request
		if l.late == nil {
			l.late = map[string]bool{}
		}
		if l.late[req.RemoteAddr] {
			l.mu.Unlock()
			return ErrRefused
		}
		l.late[req.RemoteAddr] = true
		Probe("request-during-shutdown")
	}
	l.inflight++
	l.mu.Unlock()
	defer func() {
		l.mu.Lock()
		l.inflight--
		l.mu.Unlock()
	}()
	if l.srv.BaseContext != nil {
		base := l.srv.BaseContext(nil)
		if base != nil && req.Context() == context.Background() {
			req = req.WithContext(base)
		}
	}
	l.srv.Handler.ServeHTTP(w, req)
	return nil
}

type sigReg struct {
	c    chan<- os.Signal
	sigs []os.Signal
}

// SignalNotify replaces signal.Notify.
func SignalNotify(c chan<- os.Signal, sigs ...os.Signal) {
	S.sigs = append(S.sigs, sigReg{c: c, sigs: sigs})
}

// Kill delivers a signal to the program: to every channel registered for it (never blocking, like the runtime).
// It reports whether anybody was registered.
func Kill(sig os.Signal) bool {
	hit := false
	for _, r := range S.sigs {
		match := len(r.sigs) == 0
		for _, x := range r.sigs {
			if x == sig {
				match = true
			}
		}
		if !match {
			continue
		}
		hit = true
		select {
		case r.c <- sig:
		default:
		}
	}
	Probe("signal-delivered")
	return hit
}

// Nop replaces calls that have no place in a simulation (debug signal handlers).
func Nop() {}
