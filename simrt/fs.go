//go:build go1.25

package simrt

import (
	"errors"
	"fmt"
	"io"
	"io/fs"
	"os"
	"path/filepath"
	"strings"
	"syscall"
	"time"
)

// FSEvent is one logged filesystem operation.
type FSEvent struct {
	N    int    // operation index
	Task string // task name
	Tag  string // task tag (e.g. request being served)
	Repos []string // repositories the task's request addresses (nil: background)
	Op   string
	Path string
	Mut  bool   // mutating
	Err  string // error class or ""
	Injected bool
	Gen  int // server generation of the task
}

// FaultSpec describes an injected failure for operation index N (1-based, as counted by the seam).
type FaultSpec struct {
	N     int    `json:"n"`
	Errno string `json:"errno"`           // EIO, ENOSPC, EACCES
	Short int    `json:"short,omitempty"` // for File.Write: bytes written before the error (0 = none written); -1 = plain error
}

// FS is the disk seam: a shim over the real filesystem.
type FS struct {
	s       *Sim
	N       int // operations so far
	NMut    int // mutating operations so far
	Log     []FSEvent
	KeepLog bool
	Faults  []FaultSpec // preset, sorted by N
	// Rate-based faults: each eligible operation draws from FaultStream; a value below Rate (per 10000) injects.
	FaultStream *Stream
	Rate        int
	FaultKinds  []string // subset of "read","write","meta" eligible for rate-based faults
	FaultUnder  string   // only paths with this prefix are eligible
	Fired       []int    // op indices at which a fault was injected
	FiredKinds  []string
	// Crash-point hook: called before mutating op k is applied (phase 0) and, for writes when
	// Torn is set, after a strict prefix has been written (phase 1, n = prefix length).
	OnMut func(k int, op, path string, phase, n int)
	Torn  bool
	LiveGen int // tasks of an older generation are detached from the disk
	Stamp   bool
	OpCost  time.Duration // simulated duration of one filesystem operation (keeps timestamps distinct, as on a real system)
}

//go:norace
func newFS(s *Sim) *FS {
	return &FS{s: s, KeepLog: true, Stamp: true, OpCost: time.Microsecond}
}

var errDetached = &fs.PathError{Op: "detached", Path: "", Err: syscall.EIO}

//go:norace
func errnoOf(name string) error {
	switch name {
	case "ENOSPC":
		return syscall.ENOSPC
	case "EACCES":
		return syscall.EACCES
	case "EMFILE":
		return syscall.EMFILE
	}
	return syscall.EIO
}

//go:norace
func opKind(op string) string {
	switch op {
	case "stat", "lstat", "open", "readfile", "readdir":
		return "read"
	case "write", "writefile", "createtemp", "create":
		return "write"
	}
	return "meta"
}

// op is the common prologue: yield, count, log, detach and fault checks.
//
//go:norace
func (f *FS) op(op, path string, mut bool) (ev *FSEvent, fault *FaultSpec, err error) {
	if f.s.cur != nil {
		Yield()
		if f.OpCost > 0 {
			// the baton is kept: every other goroutine is durably blocked, so the fake clock simply advances
			time.Sleep(f.OpCost)
		}
	}
	f.N++
	t := f.s.cur
	e := FSEvent{N: f.N, Op: op, Path: path, Mut: mut}
	if t != nil {
		e.Task, e.Tag, e.Repos, e.Gen = t.Name, t.Tag, t.Repos, t.Gen
		if t.Gen < f.LiveGen {
			e.Err = "detached"
			if f.KeepLog {
				f.Log = append(f.Log, e)
			}
			return nil, nil, errDetached
		}
	}
	// preset faults
	for i := range f.Faults {
		if f.Faults[i].N == f.N {
			fault = &f.Faults[i]
			break
		}
	}
	// rate-based faults
	if fault == nil && f.Rate > 0 && f.FaultStream != nil && op != "close" && strings.HasPrefix(path, f.FaultUnder) {
		k := opKind(op)
		ok := false
		for _, fk := range f.FaultKinds {
			if fk == k {
				ok = true
			}
		}
		if ok && int(f.FaultStream.Next()%10000) < f.Rate {
			sp := FaultSpec{N: f.N, Errno: "EIO", Short: -1}
			if k == "write" {
				sp.Errno = "ENOSPC"
				if op == "write" {
					sp.Short = int(f.FaultStream.Next() % 64)
				}
			}
			fault = &sp
		}
	}
	if fault != nil {
		f.Fired = append(f.Fired, f.N)
		f.FiredKinds = append(f.FiredKinds, op+":"+fault.Errno)
		e.Injected = true
		if !(op == "write" && fault.Short >= 0) {
			e.Err = fault.Errno
			if f.KeepLog {
				f.Log = append(f.Log, e)
			}
			return nil, nil, &fs.PathError{Op: op, Path: path, Err: errnoOf(fault.Errno)}
		}
	}
	if mut {
		f.NMut++
		if f.OnMut != nil {
			f.OnMut(f.NMut, op, path, 0, 0)
		}
	}
	if f.KeepLog {
		f.Log = append(f.Log, e)
		ev = &f.Log[len(f.Log)-1]
	}
	return ev, fault, nil
}

//go:norace
func (f *FS) done(ev *FSEvent, err error) {
	if ev != nil && err != nil {
		switch {
		case errors.Is(err, fs.ErrNotExist):
			ev.Err = "ENOENT"
		case errors.Is(err, fs.ErrExist):
			ev.Err = "EEXIST"
		case errors.Is(err, syscall.ENOTEMPTY):
			ev.Err = "ENOTEMPTY"
		case errors.Is(err, syscall.ENOTDIR):
			ev.Err = "ENOTDIR"
		case errors.Is(err, syscall.EISDIR):
			ev.Err = "EISDIR"
		default:
			ev.Err = "ERR"
		}
	}
}

//go:norace
func (f *FS) stamp(path string) {
	if !f.Stamp {
		return
	}
	now := time.Now() // fake clock inside the bubble
	_ = os.Chtimes(path, now, now)
}

// File wraps *os.File so writes and closes pass through the seam.
type File struct {
	f    *os.File
	name string
	wr   bool
}

//go:norace
func FSStat(p string) (os.FileInfo, error) {
	ev, _, err := S.FS.op("stat", p, false)
	if err != nil {
		return nil, err
	}
	fi, err := os.Stat(p)
	S.FS.done(ev, err)
	return fi, err
}

//go:norace
func FSLstat(p string) (os.FileInfo, error) {
	ev, _, err := S.FS.op("lstat", p, false)
	if err != nil {
		return nil, err
	}
	fi, err := os.Lstat(p)
	S.FS.done(ev, err)
	return fi, err
}

//go:norace
func FSReadFile(p string) ([]byte, error) {
	ev, _, err := S.FS.op("readfile", p, false)
	if err != nil {
		return nil, err
	}
	b, err := os.ReadFile(p)
	S.FS.done(ev, err)
	return b, err
}

//go:norace
func FSReadDir(p string) ([]os.DirEntry, error) {
	ev, _, err := S.FS.op("readdir", p, false)
	if err != nil {
		return nil, err
	}
	d, err := os.ReadDir(p)
	S.FS.done(ev, err)
	return d, err
}

//go:norace
func FSOpen(p string) (*File, error) {
	ev, _, err := S.FS.op("open", p, false)
	if err != nil {
		return nil, err
	}
	f, err := os.Open(p)
	S.FS.done(ev, err)
	if err != nil {
		return nil, err
	}
	return &File{f: f, name: p}, nil
}

//go:norace
func FSOpenFile(p string, flag int, perm os.FileMode) (*File, error) {
	mut := flag&(os.O_WRONLY|os.O_RDWR|os.O_CREATE|os.O_TRUNC|os.O_APPEND) != 0
	ev, _, err := S.FS.op("openfile", p, mut)
	if err != nil {
		return nil, err
	}
	f, err := os.OpenFile(p, flag, perm)
	S.FS.done(ev, err)
	if err != nil {
		return nil, err
	}
	if mut {
		S.FS.stamp(p)
	}
	return &File{f: f, name: p, wr: mut}, nil
}

//go:norace
func FSCreate(p string) (*File, error) {
	return FSOpenFile(p, os.O_RDWR|os.O_CREATE|os.O_TRUNC, 0666)
}

//go:norace
func FSWriteFile(p string, b []byte, m os.FileMode) error {
	ev, _, err := S.FS.op("writefile", p, true)
	if err != nil {
		return err
	}
	if S.FS.Torn && S.FS.OnMut != nil && len(b) > 1 {
		n := len(b) / 2
		_ = os.WriteFile(p, b[:n], m)
		S.FS.stamp(p)
		S.FS.OnMut(S.FS.NMut, "writefile", p, 1, n)
	}
	err = os.WriteFile(p, b, m)
	S.FS.stamp(p)
	S.FS.done(ev, err)
	return err
}

//go:norace
func FSMkdirAll(p string, m os.FileMode) error {
	ev, _, err := S.FS.op("mkdirall", p, true)
	if err != nil {
		return err
	}
	err = os.MkdirAll(p, m)
	S.FS.done(ev, err)
	return err
}

//go:norace
func FSMkdir(p string, m os.FileMode) error {
	ev, _, err := S.FS.op("mkdir", p, true)
	if err != nil {
		return err
	}
	err = os.Mkdir(p, m)
	S.FS.done(ev, err)
	return err
}

//go:norace
func tempName(dir, pattern string) (string, string) {
	prefix, suffix := pattern, ""
	if i := strings.LastIndexByte(pattern, '*'); i >= 0 {
		prefix, suffix = pattern[:i], pattern[i+1:]
	}
	return filepath.Join(dir, prefix), suffix
}

//go:norace
func FSCreateTemp(dir, pattern string) (*File, error) {
	if dir == "" {
		dir = os.TempDir()
	}
	ev, _, err := S.FS.op("createtemp", dir, true)
	if err != nil {
		return nil, err
	}
	pre, suf := tempName(dir, pattern)
	for try := 0; try < 10000; try++ {
		name := fmt.Sprintf("%s%09d%s", pre, S.Entropy.Next()%1000000000, suf)
		f, err := os.OpenFile(name, os.O_RDWR|os.O_CREATE|os.O_EXCL, 0600)
		if errors.Is(err, fs.ErrExist) {
			continue
		}
		S.FS.done(ev, err)
		if err != nil {
			return nil, err
		}
		if ev != nil {
			ev.Path = name
		}
		S.FS.stamp(name)
		return &File{f: f, name: name, wr: true}, nil
	}
	return nil, fmt.Errorf("simrt: cannot create temp file in %s", dir)
}

//go:norace
func FSMkdirTemp(dir, pattern string) (string, error) {
	if dir == "" {
		dir = os.TempDir()
	}
	ev, _, err := S.FS.op("mkdirtemp", dir, true)
	if err != nil {
		return "", err
	}
	pre, suf := tempName(dir, pattern)
	for try := 0; try < 10000; try++ {
		name := fmt.Sprintf("%s%09d%s", pre, S.Entropy.Next()%1000000000, suf)
		err := os.Mkdir(name, 0700)
		if errors.Is(err, fs.ErrExist) {
			continue
		}
		S.FS.done(ev, err)
		if err != nil {
			return "", err
		}
		return name, nil
	}
	return "", fmt.Errorf("simrt: cannot create temp dir in %s", dir)
}

//go:norace
func FSRename(a, b string) error {
	ev, _, err := S.FS.op("rename", a+" -> "+b, true)
	if err != nil {
		return err
	}
	err = os.Rename(a, b)
	S.FS.done(ev, err)
	return err
}

//go:norace
func FSRemove(p string) error {
	ev, _, err := S.FS.op("remove", p, true)
	if err != nil {
		return err
	}
	err = os.Remove(p)
	S.FS.done(ev, err)
	return err
}

//go:norace
func FSRemoveAll(p string) error {
	ev, _, err := S.FS.op("removeall", p, true)
	if err != nil {
		return err
	}
	err = os.RemoveAll(p)
	S.FS.done(ev, err)
	return err
}

//go:norace
func FSChtimes(p string, a, m time.Time) error {
	ev, _, err := S.FS.op("chtimes", p, true)
	if err != nil {
		return err
	}
	err = os.Chtimes(p, a, m)
	S.FS.done(ev, err)
	return err
}

//go:norace
func (f *File) Name() string { return f.name }

//go:norace
func (f *File) Write(b []byte) (int, error) {
	if f == nil {
		return 0, os.ErrInvalid // as (*os.File)(nil).Write
	}
	ev, fault, err := S.FS.op("write", f.name, true)
	if err != nil {
		return 0, err
	}
	if fault != nil && fault.Short >= 0 {
		n := fault.Short
		if n > len(b) {
			n = len(b)
		}
		n, _ = f.f.Write(b[:n])
		S.FS.stamp(f.name)
		if ev != nil {
			ev.Err = "SHORT"
		}
		return n, &fs.PathError{Op: "write", Path: f.name, Err: errnoOf(fault.Errno)}
	}
	if S.FS.Torn && S.FS.OnMut != nil && len(b) > 1 {
		n := len(b) / 2
		n1, _ := f.f.Write(b[:n])
		S.FS.stamp(f.name)
		S.FS.OnMut(S.FS.NMut, "write", f.name, 1, n1)
		n2, err := f.f.Write(b[n1:])
		S.FS.stamp(f.name)
		S.FS.done(ev, err)
		return n1 + n2, err
	}
	n, err := f.f.Write(b)
	S.FS.stamp(f.name)
	S.FS.done(ev, err)
	return n, err
}

//go:norace
func (f *File) WriteString(s string) (int, error) { return f.Write([]byte(s)) }

//go:norace
func (f *File) Read(b []byte) (int, error) {
	if f == nil {
		return 0, os.ErrInvalid
	}
	// reads of an open file are not scheduling points (content-addressed, immutable once renamed)
	return f.f.Read(b)
}

//go:norace
func (f *File) ReadAt(b []byte, off int64) (int, error) {
	if f == nil {
		return 0, os.ErrInvalid
	}
	return f.f.ReadAt(b, off)
}

//go:norace
func (f *File) Seek(off int64, whence int) (int64, error) {
	if f == nil {
		return 0, os.ErrInvalid
	}
	return f.f.Seek(off, whence)
}

//go:norace
func (f *File) Stat() (os.FileInfo, error) {
	if f == nil {
		return nil, os.ErrInvalid
	}
	return f.f.Stat()
}

//go:norace
func (f *File) Sync() error {
	if f == nil {
		return os.ErrInvalid
	}
	return f.f.Sync()
}

//go:norace
func (f *File) Truncate(n int64) error {
	if f == nil {
		return os.ErrInvalid
	}
	ev, _, err := S.FS.op("truncate", f.name, true)
	if err != nil {
		return err
	}
	err = f.f.Truncate(n)
	S.FS.done(ev, err)
	return err
}

//go:norace
func (f *File) Close() error {
	if f == nil {
		return os.ErrInvalid // as (*os.File)(nil).Close
	}
	if S.cur == nil {
		return f.f.Close()
	}
	ev, _, err := S.FS.op("close", f.name, false)
	if err != nil {
		_ = f.f.Close()
		return err
	}
	err = f.f.Close()
	S.FS.done(ev, err)
	return err
}

var _ io.ReadSeekCloser = (*File)(nil)
