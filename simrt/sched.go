//go:build go1.25

// Package simrt is the deterministic simulator runtime that instrumented olareg code runs on.
//
// One task runs at a time (it "holds the baton"). The scheduler is the root goroutine of a
// testing/synctest bubble; it hands the baton to one runnable task, waits until that task
// yields, blocks or finishes, waits for the bubble to settle (synctest.Wait) and chooses again.
// Every choice is drawn from a replayable Stream.
//
// Everything in this package is //go:norace and brackets its own synchronisation with
// RaceDisable/RaceEnable so that, in -race builds, the simulator adds no happens-before
// edges between tasks: the race detector then sees only the program's own synchronisation.
package simrt

import (
	"fmt"
	"runtime"
	"sort"
	"strings"
	"sync"
	"testing/synctest"
	"time"
	"unsafe"
)

type taskState uint8

const (
	stRunning taskState = iota
	stRunnable
	stBlockedSim  // blocked on a simulated primitive; becomes runnable via makeRunnable
	stBlockedReal // inside a real blocking operation (channel, sleep, net)
	stWaitIdle    // harness task waiting for quiescence
	stDone
)

// Task is one simulated thread of control.
type Task struct {
	Key   uint64 // deterministic identity, also the sort key
	Name  string
	Class string // scheduling class: "client", "ticker", "timer", "go", "main"
	Gen   int    // server generation (for crash/detach)
	Tag   string // free-form, e.g. the request being served (inherited by children)
	Repos []string
	wake  chan struct{}
	state taskState
	on    string // what it is blocked on
	waitM *Mutex // mutex it waits for (wait-for graph)
	where string // function stack summary at the point it blocked
	prio  int
	// Req is an opaque per-task slot the harness may use (e.g. current request record).
	Req any
	// Harness marks a task that runs harness code; inServer is set while it executes code under test.
	// Only meaningful in -race builds, see hbIn.
	Harness  bool
	inServer bool
}

// hbTok carries the happens-before edges between harness sections in -race builds. The baton serialises
// all tasks, but the race detector is not told (the simulator's own synchronisation is hidden from it so
// that only the program's synchronisation orders the program's accesses). Harness state shared between
// harness tasks would then look racy: every stretch of harness code therefore acquires the token when it
// gets the baton and releases it when it gives the baton up or enters code under test. Code under test
// never touches the token, so two requests that overlap in the simulated schedule stay unordered.
var hbTok [8]byte

//go:norace
func (t *Task) hbIn() {
	if t != nil && t.Harness && !t.inServer {
		raceAcquire(unsafe.Pointer(&hbTok))
	}
}

//go:norace
func (t *Task) hbOut() {
	if t != nil && t.Harness && !t.inServer {
		raceReleaseMerge(unsafe.Pointer(&hbTok))
	}
}

// EnterServer marks the start of code under test inside a harness task (a request handler called directly).
//
//go:norace
func EnterServer() {
	if t := Cur(); t != nil && t.Harness {
		t.hbOut()
		t.inServer = true
	}
}

// LeaveServer marks the return to harness code.
//
//go:norace
func LeaveServer() {
	if t := Cur(); t != nil && t.Harness {
		t.inServer = false
		t.hbIn()
	}
}

// Strategy selects how the scheduler picks among runnable tasks.
type Strategy struct {
	Kind   string `json:"kind"`             // "uniform", "sticky", "pct", "starve", "seq"
	Sticky int    `json:"sticky,omitempty"` // percent, for "sticky"
	Depth  int    `json:"depth,omitempty"`  // priority change points, for "pct"
	Horizon int   `json:"horizon,omitempty"` // expected steps, for "pct"
	Class  string `json:"class,omitempty"`  // starved class, for "starve"
	Preempt int   `json:"preempt,omitempty"` // forced preemptions, for "seq"
	// stalled tasks (fault): at a scheduling point of code under test the task stops for StallMs of simulated time, with
	// probability StallPer/10000, at most StallMax times per run (a descheduled goroutine, a paused thread)
	StallPer int `json:"stall_per,omitempty"`
	StallMs  int `json:"stall_ms,omitempty"`
	StallMax int `json:"stall_max,omitempty"`
}

// Sim is one simulated execution.
type Sim struct {
	mu    sync.Mutex // real mutex: guards task state changes made without the baton
	tasks []*Task
	cur   *Task
	back  chan struct{}
	note  chan struct{}

	Sched    *Stream
	MapOrder *Stream
	Entropy  *Stream

	goSeq    uint64
	timerSeq uint64

	Strat       Strategy
	pctChange   []int
	seqPreempt  []int
	Steps       int
	MaxSteps    int
	Choices     int // scheduling decisions with more than one runnable task
	Switches    int // decisions that changed the running task while it was still runnable
	TraceHash   uint64
	FS          *FS
	probes      []probe
	abort       bool
	AbortReason string
	StallAfter  time.Duration // simulated time without any runnable task before giving up
	LockPairs   []string      // realised nested lock acquisitions "outer>inner" (distinct)
	Contended   int
	panicVal    any
	panicStack  string
	listeners   []*httpListener
	sigs        []sigReg
	Stalls      int // stall faults injected
}

// S is the simulation the instrumented code runs in. One simulation per process at a time.
var S *Sim

//go:norace
func New(sched, maporder, entropy *Stream) *Sim {
	s := &Sim{
		back: make(chan struct{}, 1), note: make(chan struct{}, 1),
		Sched: sched, MapOrder: maporder, Entropy: entropy,
		MaxSteps: 400000, StallAfter: 1000 * time.Hour,
		Strat: Strategy{Kind: "uniform"},
	}
	s.FS = newFS(s)
	S = s
	// library state that is initialised lazily under a sync.Once must be initialised here, where the race
	// detector still sees the Once: the scheduler creates its timers with synchronisation events ignored
	time.NewTimer(time.Hour).Stop()
	return s
}

// SetStrategy installs the strategy; must be called before Run.
//
//go:norace
func (s *Sim) SetStrategy(st Strategy) {
	s.Strat = st
	switch st.Kind {
	case "pct":
		h := st.Horizon
		if h <= 0 {
			h = 2000
		}
		for i := 0; i < st.Depth; i++ {
			s.pctChange = append(s.pctChange, 1+s.Sched.Intn(h))
		}
		sort.Ints(s.pctChange)
	case "seq":
		h := st.Horizon
		if h <= 0 {
			h = 2000
		}
		for i := 0; i < st.Preempt; i++ {
			s.seqPreempt = append(s.seqPreempt, 1+s.Sched.Intn(h))
		}
		sort.Ints(s.seqPreempt)
	}
}

type probe struct {
	name string
	n    int
}

// Probe counts a "this rare condition was hit" event.
//
//go:norace
func Probe(name string) {
	s := S
	if s == nil {
		return
	}
	for i := range s.probes {
		if s.probes[i].name == name {
			s.probes[i].n++
			return
		}
	}
	s.probes = append(s.probes, probe{name, 1})
}

// Probes returns name/count pairs.
//
//go:norace
func (s *Sim) Probes() ([]string, []int) {
	names := make([]string, len(s.probes))
	counts := make([]int, len(s.probes))
	for i := range s.probes {
		names[i], counts[i] = s.probes[i].name, s.probes[i].n
	}
	return names, counts
}

// ProbeCount returns the count of a probe.
//
//go:norace
func (s *Sim) ProbeCount(name string) int {
	for i := range s.probes {
		if s.probes[i].name == name {
			return s.probes[i].n
		}
	}
	return 0
}

// Cur returns the task holding the baton (nil if none).
//
//go:norace
func Cur() *Task {
	if S == nil {
		return nil
	}
	return S.cur
}

//go:norace
func (s *Sim) newTask(key uint64, name, class string, parent *Task) *Task {
	t := &Task{Key: key, Name: name, Class: class, wake: make(chan struct{}), state: stBlockedReal}
	t.Harness = class == "client" || class == "main" || class == "monitor"
	if parent != nil {
		t.Gen, t.Tag, t.Repos, t.Req = parent.Gen, parent.Tag, parent.Repos, parent.Req
	}
	// (PCT priorities are drawn by the scheduler when it first sees the task: timer tasks are created outside the baton,
	// and nothing may be drawn from a stream there)
	raceDisable()
	s.mu.Lock()
	s.tasks = append(s.tasks, t)
	s.mu.Unlock()
	raceEnable()
	return t
}

// GoN starts f as a new task (replacement for the go statement); name is the called function.
func GoN(name string, f func()) {
	class := "go"
	if strings.Contains(name, "gcTicker") {
		class = "ticker"
	}
	S.GoNamed("go:"+name, class, f)
}

// Go starts f as a new task.
func Go(f func()) { GoN("anon", f) }

// GoNamed starts a named task. Must be called with the baton held, or from the root before Run.
func (s *Sim) GoNamed(name, class string, f func()) *Task {
	s.goSeq++
	t := s.newTask(s.goSeq<<20, name, class, s.cur)
	go func() { // the real go statement keeps the native parent->child happens-before edge
		Acquire(t)
		defer s.finish(t)
		f()
	}()
	return t
}

//go:norace
func (s *Sim) finish(t *Task) {
	if r := recover(); r != nil {
		// a panic in a task must not kill the process (synctest would make it fatal); record it
		buf := make([]byte, 1<<14)
		n := runtime.Stack(buf, false)
		if s.panicVal == nil {
			s.panicVal = r
			s.panicStack = string(buf[:n])
		}
		s.abort = true
		if s.AbortReason == "" {
			s.AbortReason = "panic in task " + t.Name
		}
	}
	t.hbOut()
	raceDisable()
	s.mu.Lock()
	t.state = stDone
	s.mu.Unlock()
	s.cur = nil
	s.back <- struct{}{}
	raceEnable()
}

// Panic returns a recorded task panic (value, stack).
//
//go:norace
func (s *Sim) Panic() (any, string) { return s.panicVal, s.panicStack }

// Acquire makes t runnable and parks until the scheduler hands it the baton. It is called
// by goroutines that do not hold the baton (new tasks, tasks returning from a real blocking op).
//
//go:norace
func Acquire(t *Task) {
	s := S
	raceDisable()
	s.mu.Lock()
	t.state = stRunnable
	s.mu.Unlock()
	select {
	case s.note <- struct{}{}:
	default:
	}
	<-t.wake
	raceEnable()
	t.hbIn()
}

// Release gives up the baton before a real blocking operation; pair with Acquire.
//
//go:norace
func Release() *Task {
	s := S
	t := s.cur
	if t == nil {
		panic("simrt: Release without the baton")
	}
	t.hbOut()
	raceDisable()
	s.mu.Lock()
	t.state = stBlockedReal
	s.mu.Unlock()
	s.cur = nil
	s.back <- struct{}{}
	raceEnable()
	return t
}

// Yield is a scheduling point: the task stays runnable but the scheduler may run another.
//
//go:norace
func Yield() {
	s := S
	t := s.cur
	if t == nil {
		panic("simrt: Yield without the baton")
	}
	if st := &s.Strat; st.StallPer > 0 && s.Stalls < st.StallMax && (t.inServer || !t.Harness) && s.Sched.Intn(10000) < st.StallPer {
		s.Stalls++
		Probe("stall")
		Sleep(time.Duration(st.StallMs) * time.Millisecond)
		return
	}
	t.hbOut()
	raceDisable()
	s.mu.Lock()
	t.state = stRunnable
	s.mu.Unlock()
	s.cur = nil
	s.back <- struct{}{}
	<-t.wake
	raceEnable()
	t.hbIn()
}

// block parks the current task on a simulated primitive until makeRunnable(t) and rescheduling.
//
//go:norace
func (s *Sim) block(t *Task, on string) {
	t.where = callerSummary(3)
	t.hbOut()
	raceDisable()
	s.mu.Lock()
	t.state = stBlockedSim
	t.on = on
	s.mu.Unlock()
	s.cur = nil
	s.back <- struct{}{}
	<-t.wake
	t.on = ""
	raceEnable()
	t.hbIn()
}

//go:norace
func (s *Sim) makeRunnable(t *Task) {
	raceDisable()
	s.mu.Lock()
	if t.state == stBlockedSim {
		t.state = stRunnable
	}
	s.mu.Unlock()
	raceEnable()
}

// WaitIdle parks the calling (harness) task until every other task is finished or waiting
// for simulated time only: no task runnable, none blocked on a simulated primitive.
//
//go:norace
func (s *Sim) WaitIdle() {
	t := s.cur
	if t == nil {
		panic("simrt: WaitIdle without the baton")
	}
	t.hbOut()
	raceDisable()
	s.mu.Lock()
	t.state = stWaitIdle
	s.mu.Unlock()
	s.cur = nil
	s.back <- struct{}{}
	<-t.wake
	raceEnable()
	t.hbIn()
}

// OthersQuiet reports whether every task other than the caller is finished or waiting for
// simulated time / a real wake-up (nothing else could run right now).
//
//go:norace
func (s *Sim) OthersQuiet() bool {
	raceDisable()
	defer raceEnable()
	synctest.Wait() // wake-ups caused by the caller's own actions have settled
	s.mu.Lock()
	defer s.mu.Unlock()
	for _, t := range s.tasks {
		if t == s.cur {
			continue
		}
		switch t.state {
		case stRunnable, stRunning, stBlockedSim:
			return false
		}
	}
	return true
}

// Abort asks the scheduler to stop the run (used by watchdog tasks and oracles).
//
//go:norace
func (s *Sim) Abort(reason string) {
	s.abort = true
	if s.AbortReason == "" {
		s.AbortReason = reason
	}
}

// Result of a run.
type Result struct {
	Deadlock   []string // non-nil: wait-for cycle
	CycleSig   []string // functions waiting in the cycle (for signatures)
	Steps      int
	OutOfSteps bool
	Stalled    bool // nothing runnable and no timer fired for StallAfter
	Aborted    bool
	Reason     string
	Leaked     bool // goroutines remain blocked
}

// Run is the scheduler loop. Call it from the root goroutine of the synctest bubble.
//
//go:norace
func (s *Sim) Run() (res Result) {
	raceDisable()
	// (deferred calls run last-in first-out: the root sees what the harness tasks wrote once the detector listens again)
	defer raceAcquire(unsafe.Pointer(&hbTok))
	defer raceEnable()
	defer func() { res.Steps = s.Steps }()
	var last *Task
	for {
		synctest.Wait()
		if s.abort {
			res.Aborted, res.Reason, res.Leaked = true, s.AbortReason, true
			return
		}
		s.mu.Lock()
		var run []*Task
		var idle []*Task
		live, blockedSim := 0, 0
		// finished tasks are dropped (a long run with a short tick creates one task per timer firing)
		if len(s.tasks) > 64 {
			keep := s.tasks[:0]
			for _, t := range s.tasks {
				if t.state != stDone {
					keep = append(keep, t)
				}
			}
			for i := len(keep); i < len(s.tasks); i++ {
				s.tasks[i] = nil
			}
			s.tasks = keep
		}
		for _, t := range s.tasks {
			switch t.state {
			case stRunnable:
				run = append(run, t)
				live++
			case stBlockedSim:
				live++
				blockedSim++
			case stBlockedReal:
				live++
			case stWaitIdle:
				live++
				idle = append(idle, t)
			}
		}
		if len(run) == 0 && blockedSim == 0 && len(idle) > 0 {
			// quiescent: wake the idle waiters
			for _, t := range idle {
				t.state = stRunnable
				run = append(run, t)
			}
		}
		s.mu.Unlock()
		if len(run) == 0 {
			if live == 0 {
				return
			}
			if cyc, sig := s.waitCycle(); cyc != nil {
				res.Deadlock, res.CycleSig, res.Leaked = cyc, sig, true
				return
			}
			// durable block: the fake clock advances to the next timer / real wake-up
			tm := time.NewTimer(s.StallAfter)
			select {
			case <-s.note:
				tm.Stop()
			case <-tm.C:
				res.Stalled, res.Leaked = true, true
				return
			}
			continue
		}
		if s.Steps >= s.MaxSteps {
			res.OutOfSteps, res.Leaked = true, true
			return
		}
		sort.Slice(run, func(i, j int) bool { return run[i].Key < run[j].Key })
		if s.Strat.Kind == "pct" {
			for _, c := range run {
				if c.prio == 0 {
					c.prio = 1000 + s.Sched.Intn(1000000)
				}
			}
		}
		t := s.pick(run, last)
		s.mu.Lock()
		t.state = stRunning
		s.mu.Unlock()
		s.Steps++
		s.TraceHash = (s.TraceHash ^ t.Key) * 0x100000001b3
		s.cur = t
		last = t
		t.wake <- struct{}{}
		<-s.back
	}
}

//go:norace
func (s *Sim) pick(run []*Task, last *Task) *Task {
	if len(run) == 1 {
		return run[0]
	}
	s.Choices++
	lastRunnable := last != nil && last.state == stRunnable
	var t *Task
	switch s.Strat.Kind {
	case "sticky":
		if lastRunnable && s.Sched.Intn(100) < s.Strat.Sticky {
			t = last
		} else {
			t = run[s.Sched.Intn(len(run))]
		}
	case "pct":
		for len(s.pctChange) > 0 && s.pctChange[0] <= s.Steps {
			s.pctChange = s.pctChange[1:]
			if lastRunnable {
				last.prio = len(s.pctChange) // drop below every initial priority
			}
		}
		t = run[0]
		for _, c := range run[1:] {
			if c.prio > t.prio {
				t = c
			}
		}
	case "seq":
		// run the same task until it blocks, except at forced preemption points
		pre := false
		for len(s.seqPreempt) > 0 && s.seqPreempt[0] <= s.Steps {
			s.seqPreempt = s.seqPreempt[1:]
			pre = true
		}
		if lastRunnable && !pre {
			t = last
		} else {
			cand := run
			if pre && lastRunnable && len(run) > 1 {
				cand = make([]*Task, 0, len(run))
				for _, c := range run {
					if c != last {
						cand = append(cand, c)
					}
				}
			}
			t = cand[s.Sched.Intn(len(cand))]
		}
	case "starve":
		// tasks of the starved class run only with 5% probability while others are runnable
		var other []*Task
		for _, c := range run {
			if c.Class != s.Strat.Class {
				other = append(other, c)
			}
		}
		if len(other) > 0 && len(other) < len(run) && s.Sched.Intn(100) >= 5 {
			t = other[s.Sched.Intn(len(other))]
		} else {
			t = run[s.Sched.Intn(len(run))]
		}
	default:
		t = run[s.Sched.Intn(len(run))]
	}
	if lastRunnable && t != last {
		s.Switches++
	}
	return t
}

// waitCycle looks for a cycle in the wait-for graph of simulated mutexes.
//
//go:norace
func (s *Sim) waitCycle() ([]string, []string) {
	for _, t0 := range s.tasks {
		if t0.state != stBlockedSim || t0.waitM == nil {
			continue
		}
		var seen []*Task
		var path, sig []string
		t := t0
		for t != nil && t.state == stBlockedSim && t.waitM != nil {
			for _, x := range seen {
				if x == t {
					sort.Strings(sig)
					return path, sig
				}
			}
			seen = append(seen, t)
			owner := t.waitM.owner
			on := "?"
			if owner != nil {
				on = owner.Name
			}
			path = append(path, fmt.Sprintf("%s [%s] waits for %s held by %s", t.Name, t.where, t.waitM.name(), on))
			sig = append(sig, t.where)
			t = owner
		}
	}
	return nil, nil
}

// Dump describes all unfinished tasks (for stall reports).
//
//go:norace
func (s *Sim) Dump() []string {
	var out []string
	for _, t := range s.tasks {
		if t.state != stDone {
			out = append(out, fmt.Sprintf("task %s state=%d on=%s where=%s tag=%s", t.Name, t.state, t.on, t.where, t.Tag))
		}
	}
	return out
}

// Unfinished returns, for every task that is not done, "name|where".
//
//go:norace
func (s *Sim) Unfinished() []string {
	var out []string
	for _, t := range s.tasks {
		if t.state != stDone {
			out = append(out, t.Name+"|"+t.on+"|"+t.where)
		}
	}
	return out
}

// Stacks returns all goroutine stacks (diagnostics only).
//
//go:norace
func Stacks() string {
	buf := make([]byte, 1<<18)
	n := runtime.Stack(buf, true)
	return string(buf[:n])
}

//go:norace
func shortFunc(n string) string {
	if i := strings.LastIndex(n, "/"); i >= 0 {
		n = n[i+1:]
	}
	return n
}

// callerSummary returns the first few non-simrt function names above the caller.
//
//go:norace
func callerSummary(skip int) string {
	pcs := make([]uintptr, 16)
	n := runtime.Callers(skip, pcs)
	frames := runtime.CallersFrames(pcs[:n])
	var parts []string
	for {
		fr, more := frames.Next()
		fn := shortFunc(fr.Function)
		if fn != "" && !strings.HasPrefix(fn, "simrt.") && !strings.HasPrefix(fn, "runtime.") && !strings.Contains(fn, "verif") && !strings.HasPrefix(fn, "testing.") {
			parts = append(parts, fn)
			if len(parts) >= 3 {
				break
			}
		}
		if !more {
			break
		}
	}
	return strings.Join(parts, "<")
}

// ---- time ----

// AfterFunc replaces time.AfterFunc: the callback runs as a task whose identity was reserved
// when the timer was created.
func AfterFunc(d time.Duration, f func()) *time.Timer {
	s := S
	s.timerSeq++
	id := s.timerSeq
	fire := uint64(0)
	parent := s.cur
	var gen int
	harness := false
	if parent != nil {
		gen = parent.Gen
		harness = parent.Harness && !parent.inServer
	}
	return time.AfterFunc(d, func() {
		fire++
		t := s.newTask(1<<62|id<<20|fire, fmt.Sprintf("timer%d", id), "timer", nil)
		t.Gen = gen
		t.Harness = harness
		Acquire(t)
		defer s.finish(t)
		Probe("timer-fired")
		f()
	})
}

// Sleep replaces time.Sleep.
func Sleep(d time.Duration) {
	t := Release()
	time.Sleep(d)
	Acquire(t)
}

// ---- pinned randomness / iteration order ----

//go:norace
func RandRead(b []byte) (int, error) {
	for i := range b {
		b[i] = byte(S.Entropy.Next())
	}
	return len(b), nil
}

// MapKeys returns the keys of m in an order chosen by the MapOrder stream.
func MapKeys[K comparable, V any](m map[K]V) []K {
	keys := make([]K, 0, len(m))
	for k := range m {
		keys = append(keys, k)
	}
	if len(keys) < 2 {
		return keys
	}
	strs := make([]string, len(keys))
	for i := range keys {
		strs[i] = fmt.Sprint(keys[i])
	}
	idx := make([]int, len(keys))
	for i := range idx {
		idx[i] = i
	}
	sort.Slice(idx, func(a, b int) bool { return strs[idx[a]] < strs[idx[b]] })
	out := make([]K, len(keys))
	for i, j := range idx {
		out[i] = keys[j]
	}
	if S == nil {
		return out
	}
	for i := len(out) - 1; i > 0; i-- { // Fisher-Yates from the stream
		j := S.MapOrder.Intn(i + 1)
		out[i], out[j] = out[j], out[i]
	}
	return out
}

// ZeroK / ZeroV give the rewriter typed zero values without printing types.
func ZeroK[K comparable, V any](m map[K]V) (k K) { return }
func ZeroV[K comparable, V any](m map[K]V) (v V) { return }
