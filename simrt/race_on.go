//go:build race

package simrt

import (
	"runtime"
	"unsafe"
)

// RaceEnabled reports whether the binary was built with the race detector.
const RaceEnabled = true

func raceDisable()                      { runtime.RaceDisable() }
func raceEnable()                       { runtime.RaceEnable() }
func raceAcquire(p unsafe.Pointer)      { runtime.RaceAcquire(p) }
func raceRelease(p unsafe.Pointer)      { runtime.RaceRelease(p) }
func raceReleaseMerge(p unsafe.Pointer) { runtime.RaceReleaseMerge(p) }
