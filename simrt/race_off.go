//go:build !race

package simrt

import "unsafe"

// RaceEnabled reports whether the binary was built with the race detector.
const RaceEnabled = false

func raceDisable()                      {}
func raceEnable()                       {}
func raceAcquire(p unsafe.Pointer)      {}
func raceRelease(p unsafe.Pointer)      {}
func raceReleaseMerge(p unsafe.Pointer) {}
