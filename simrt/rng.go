package simrt

// Stream is a replayable source of choices. Values come from an explicit slice (the plan);
// when the slice is exhausted it is extended from a self-contained xoshiro256** generator,
// and everything handed out is recorded so the run can be replayed from the record alone.
// All methods are norace: the simulator's entropy must be invisible to the race detector.
type Stream struct {
	Vals []uint32 // recorded / preset values
	pos  int
	s    [4]uint64
	Fixed bool // if true an exhausted stream yields 0 instead of fresh entropy
}

//go:norace
func NewStream(seed uint64) *Stream {
	st := &Stream{}
	// splitmix64 to fill state
	x := seed
	for i := range st.s {
		x += 0x9e3779b97f4a7c15
		z := x
		z = (z ^ (z >> 30)) * 0xbf58476d1ce4e5b9
		z = (z ^ (z >> 27)) * 0x94d049bb133111eb
		st.s[i] = z ^ (z >> 31)
	}
	return st
}

//go:norace
func rotl(x uint64, k uint) uint64 { return (x << k) | (x >> (64 - k)) }

//go:norace
func (st *Stream) raw() uint64 {
	s := &st.s
	r := rotl(s[1]*5, 7) * 9
	t := s[1] << 17
	s[2] ^= s[0]
	s[3] ^= s[1]
	s[1] ^= s[2]
	s[0] ^= s[3]
	s[2] ^= t
	s[3] = rotl(s[3], 45)
	return r
}

// Next returns the next value of the stream.
//
//go:norace
func (st *Stream) Next() uint32 {
	if st.pos < len(st.Vals) {
		v := st.Vals[st.pos]
		st.pos++
		return v
	}
	var v uint32
	if !st.Fixed {
		v = uint32(st.raw() >> 32)
	}
	st.Vals = append(st.Vals, v)
	st.pos++
	return v
}

// Intn returns a value in [0,n).
//
//go:norace
func (st *Stream) Intn(n int) int {
	if n <= 1 {
		return 0
	}
	return int(st.Next() % uint32(n))
}

//go:norace
func (st *Stream) Pos() int { return st.pos }
