//go:build go1.25

package simrt

import (
	"fmt"
	"unsafe"
)

// Mutex replaces sync.Mutex.
type Mutex struct {
	locked bool
	owner  *Task
	wait   []*Task
	site   string // where it was last acquired (diagnostics)
}

//go:norace
func (m *Mutex) name() string {
	return fmt.Sprintf("mutex@%p(last locked in %s)", m, m.site)
}

//go:norace
func (m *Mutex) Lock() {
	s := S
	if s == nil || s.cur == nil {
		// outside a simulation (package init etc.): single-threaded, no contention possible
		m.locked = true
		return
	}
	Yield()
	t := s.cur
	for m.locked {
		m.wait = append(m.wait, t)
		t.waitM = m
		s.Contended++
		s.block(t, "mutex")
		t.waitM = nil
	}
	m.locked = true
	m.owner = t
	m.site = callerSummary(2)
	raceAcquire(unsafe.Pointer(m))
}

//go:norace
func (m *Mutex) TryLock() bool {
	s := S
	if s == nil || s.cur == nil {
		if m.locked {
			return false
		}
		m.locked = true
		return true
	}
	Yield()
	if m.locked {
		return false
	}
	m.locked = true
	m.owner = s.cur
	raceAcquire(unsafe.Pointer(m))
	return true
}

//go:norace
func (m *Mutex) Unlock() {
	if !m.locked {
		panic("sync: unlock of unlocked mutex")
	}
	raceRelease(unsafe.Pointer(m))
	m.locked = false
	m.owner = nil
	if len(m.wait) > 0 {
		// wake all waiters; they re-compete, the scheduler decides who wins
		for _, w := range m.wait {
			S.makeRunnable(w)
		}
		m.wait = m.wait[:0]
	}
}

// RWMutex replaces sync.RWMutex (writer preference is not modelled; any legal order is explored).
type RWMutex struct {
	w       bool
	readers int
	owner   *Task
	wait    []*Task
	// race annotations use the three synchronisation objects of the real RWMutex: a writer releases to the next writer
	// (wTok) and to readers (rsTok), a reader releases to the next writer only (wsTok). Readers are not ordered with
	// each other - two readers that write the same word race, as they do under sync.RWMutex.
	wTok, rsTok, wsTok int64
}

//go:norace
func (m *RWMutex) wakeAll() {
	for _, w := range m.wait {
		S.makeRunnable(w)
	}
	m.wait = m.wait[:0]
}

//go:norace
func (m *RWMutex) Lock() {
	s := S
	if s == nil || s.cur == nil {
		m.w = true
		return
	}
	Yield()
	t := s.cur
	for m.w || m.readers > 0 {
		m.wait = append(m.wait, t)
		s.Contended++
		s.block(t, "rwmutex-w")
	}
	m.w = true
	m.owner = t
	raceAcquire(unsafe.Pointer(&m.wTok))
	raceAcquire(unsafe.Pointer(&m.rsTok))
	raceAcquire(unsafe.Pointer(&m.wsTok))
}

//go:norace
func (m *RWMutex) Unlock() {
	if !m.w {
		panic("sync: Unlock of unlocked RWMutex")
	}
	raceRelease(unsafe.Pointer(&m.rsTok))
	raceRelease(unsafe.Pointer(&m.wTok))
	m.w = false
	m.owner = nil
	m.wakeAll()
}

//go:norace
func (m *RWMutex) RLock() {
	s := S
	if s == nil || s.cur == nil {
		m.readers++
		return
	}
	Yield()
	t := s.cur
	for m.w {
		m.wait = append(m.wait, t)
		s.Contended++
		s.block(t, "rwmutex-r")
	}
	m.readers++
	raceAcquire(unsafe.Pointer(&m.rsTok))
}

//go:norace
func (m *RWMutex) RUnlock() {
	if m.readers <= 0 {
		panic("sync: RUnlock of unlocked RWMutex")
	}
	raceReleaseMerge(unsafe.Pointer(&m.wsTok))
	m.readers--
	if m.readers == 0 {
		m.wakeAll()
	}
}

// WaitGroup replaces sync.WaitGroup.
type WaitGroup struct {
	n    int
	wait []*Task
}

//go:norace
func (wg *WaitGroup) Add(d int) {
	if d < 0 {
		raceReleaseMerge(unsafe.Pointer(wg))
	}
	wg.n += d
	if wg.n < 0 {
		panic("sync: negative WaitGroup counter")
	}
	if wg.n == 0 {
		for _, w := range wg.wait {
			S.makeRunnable(w)
		}
		wg.wait = nil
	}
}

//go:norace
func (wg *WaitGroup) Done() { wg.Add(-1) }

//go:norace
func (wg *WaitGroup) Wait() {
	s := S
	if s == nil || s.cur == nil {
		if wg.n > 0 {
			panic("simrt: WaitGroup.Wait would block outside a simulation")
		}
		return
	}
	Yield()
	t := s.cur
	for wg.n > 0 {
		wg.wait = append(wg.wait, t)
		s.block(t, "waitgroup")
	}
	raceAcquire(unsafe.Pointer(wg))
}

// Count returns the current counter (harness use).
//
//go:norace
func (wg *WaitGroup) Count() int { return wg.n }

// Once replaces sync.Once.
type Once struct {
	m    Mutex
	done bool
}

//go:norace
func (o *Once) Do(f func()) {
	if o.done {
		raceAcquire(unsafe.Pointer(o))
		return
	}
	o.m.Lock()
	defer o.m.Unlock()
	if !o.done {
		defer func() {
			raceRelease(unsafe.Pointer(o))
			o.done = true
		}()
		f()
	}
}

// Locker mirrors sync.Locker.
type Locker interface {
	Lock()
	Unlock()
}

// Cond replaces sync.Cond.
type Cond struct {
	L    Locker
	wait []*Task
}

//go:norace
func NewCond(l Locker) *Cond { return &Cond{L: l} }

//go:norace
func (c *Cond) Wait() {
	s := S
	t := s.cur
	c.wait = append(c.wait, t)
	c.L.Unlock()
	s.block(t, "cond")
	raceAcquire(unsafe.Pointer(c))
	c.L.Lock()
}

//go:norace
func (c *Cond) Signal() {
	raceRelease(unsafe.Pointer(c))
	if len(c.wait) > 0 {
		i := S.Sched.Intn(len(c.wait))
		w := c.wait[i]
		c.wait = append(c.wait[:i], c.wait[i+1:]...)
		S.makeRunnable(w)
	}
}

//go:norace
func (c *Cond) Broadcast() {
	raceRelease(unsafe.Pointer(c))
	for _, w := range c.wait {
		S.makeRunnable(w)
	}
	c.wait = nil
}
