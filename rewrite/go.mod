module verifrewrite
go 1.23
