// verif-rewrite instruments a scratch copy of olareg for the simulator (spike v2).
//
//	usage: verif-rewrite <module-root> <pkgdir>...
package main

import (
	"bytes"
	"fmt"
	"go/ast"
	"go/format"
	"go/importer"
	"go/parser"
	"go/token"
	"go/types"
	"os"
	"path/filepath"
	"sort"
	"strings"
)

const simrtPath = "github.com/olareg/olareg/internal/simrt"

var osFuncs = map[string]bool{"Stat": true, "Lstat": true, "Open": true, "OpenFile": true, "Create": true, "ReadFile": true, "WriteFile": true,
	"MkdirAll": true, "Mkdir": true, "CreateTemp": true, "Rename": true, "Remove": true, "RemoveAll": true, "ReadDir": true, "Chtimes": true, "MkdirTemp": true}

var syncTypes = map[string]bool{"Mutex": true, "RWMutex": true, "WaitGroup": true, "Once": true, "Cond": true}

func main() {
	root := os.Args[1]
	for _, rel := range os.Args[2:] {
		if err := doPkg(root, rel); err != nil {
			fmt.Fprintln(os.Stderr, "rewrite", rel, err)
			os.Exit(2)
		}
	}
}

func doPkg(root, rel string) error {
	dir := filepath.Join(root, rel)
	fset := token.NewFileSet()
	pkgs, err := parser.ParseDir(fset, dir, func(fi os.FileInfo) bool { return !strings.HasSuffix(fi.Name(), "_test.go") }, parser.ParseComments)
	if err != nil {
		return err
	}
	for _, pkg := range pkgs {
		names := []string{}
		for n := range pkg.Files {
			names = append(names, n)
		}
		sort.Strings(names)
		files := []*ast.File{}
		for _, n := range names {
			files = append(files, pkg.Files[n])
		}
		info := &types.Info{Types: map[ast.Expr]types.TypeAndValue{}}
		if err := os.Chdir(dir); err != nil {
			return err
		}
		nerr := 0
		conf := types.Config{Importer: importer.ForCompiler(fset, "source", nil), Error: func(err error) { nerr++; fmt.Fprintln(os.Stderr, "typecheck:", err) }}
		_, _ = conf.Check(pkg.Name, fset, files, info)
		if nerr > 0 {
			return fmt.Errorf("%d type errors in %s", nerr, rel)
		}
		for i, f := range files {
			r := &rw{fset: fset, info: info, file: f, stats: map[string]int{}, done: map[ast.Node]bool{}}
			r.rewriteFile()
			if !r.changed {
				continue
			}
			addImport(f, simrtPath)
			pruneImports(f)
			var buf bytes.Buffer
			// drop comments' positions problems: print without free-floating comment reflow issues
			if err := format.Node(&buf, fset, f); err != nil {
				return fmt.Errorf("%s: %w", names[i], err)
			}
			if err := os.WriteFile(names[i], buf.Bytes(), 0644); err != nil {
				return err
			}
			keys := []string{}
			for k := range r.stats {
				keys = append(keys, k)
			}
			sort.Strings(keys)
			parts := []string{}
			for _, k := range keys {
				parts = append(parts, fmt.Sprintf("%s=%d", k, r.stats[k]))
			}
			fmt.Printf("%s: %s\n", filepath.Join(rel, filepath.Base(names[i])), strings.Join(parts, " "))
		}
	}
	return nil
}

type rw struct {
	goNames map[*ast.GoStmt]string
	fset    *token.FileSet
	info    *types.Info
	file    *ast.File
	changed bool
	stats   map[string]int
	tmp     int
	done    map[ast.Node]bool // nodes produced or already handled by the rewriter
}

func (r *rw) count(k string) { r.stats[k]++; r.changed = true }
func (r *rw) fresh(p string) string {
	r.tmp++
	return fmt.Sprintf("_sim%s%d", p, r.tmp)
}

func id(n string) *ast.Ident { return ast.NewIdent(n) }
func sim(fn string, args ...ast.Expr) *ast.CallExpr {
	return &ast.CallExpr{Fun: &ast.SelectorExpr{X: id("simrt"), Sel: id(fn)}, Args: args}
}
func exprStmt(e ast.Expr) ast.Stmt { return &ast.ExprStmt{X: e} }
func define(lhs string, rhs ast.Expr) ast.Stmt {
	return &ast.AssignStmt{Lhs: []ast.Expr{id(lhs)}, Tok: token.DEFINE, Rhs: []ast.Expr{rhs}}
}

func isPkgSel(e ast.Expr, pkg string) (string, bool) {
	se, ok := e.(*ast.SelectorExpr)
	if !ok {
		return "", false
	}
	x, ok := se.X.(*ast.Ident)
	if !ok || x.Name != pkg || x.Obj != nil {
		return "", false
	}
	return se.Sel.Name, true
}

func (r *rw) rewriteFile() {
	r.goNames = map[*ast.GoStmt]string{}
	for _, d := range r.file.Decls {
		fd, ok := d.(*ast.FuncDecl)
		if !ok || fd.Body == nil {
			continue
		}
		ast.Inspect(fd.Body, func(n ast.Node) bool {
			if g, ok := n.(*ast.GoStmt); ok {
				name := fd.Name.Name + ".func"
				switch f := g.Call.Fun.(type) {
				case *ast.SelectorExpr:
					name = f.Sel.Name
				case *ast.Ident:
					name = f.Name
				}
				r.goNames[g] = name
			}
			return true
		})
	}
	ast.Inspect(r.file, func(n ast.Node) bool {
		x, ok := n.(*ast.SelectorExpr)
		if !ok {
			return true
		}
		if name, ok := isPkgSel(x, "sync"); ok && syncTypes[name] {
			x.X = id("simrt")
			r.count("sync." + name)
		}
		if name, ok := isPkgSel(x, "os"); ok && (osFuncs[name] || name == "File") {
			x.X = id("simrt")
			if name != "File" {
				x.Sel = id("FS" + name)
			}
			r.count("os")
		}
		if name, ok := isPkgSel(x, "time"); ok && (name == "AfterFunc" || name == "Sleep") {
			x.X = id("simrt")
			r.count("time." + name)
		}
		if name, ok := isPkgSel(x, "rand"); ok && name == "Read" {
			x.X = id("simrt")
			x.Sel = id("RandRead")
			r.count("rand.Read")
		}
		if name, ok := isPkgSel(x, "signal"); ok && name == "Notify" {
			x.X = id("simrt")
			x.Sel = id("SignalNotify")
			r.count("signal.Notify")
		}
		if name, ok := isPkgSel(x, "godbg"); ok && name == "SignalTrace" {
			x.X = id("simrt")
			x.Sel = id("Nop")
			r.count("godbg.SignalTrace")
		}
		return true
	})
	// the listener: (*http.Server).ListenAndServe[TLS] and Shutdown
	ast.Inspect(r.file, func(n ast.Node) bool {
		call, ok := n.(*ast.CallExpr)
		if !ok {
			return true
		}
		se, ok := call.Fun.(*ast.SelectorExpr)
		if !ok {
			return true
		}
		tv, ok := r.info.Types[se.X]
		if !ok || tv.Type == nil || tv.Type.String() != "*net/http.Server" {
			return true
		}
		switch se.Sel.Name {
		case "ListenAndServe", "ListenAndServeTLS":
			call.Fun = &ast.SelectorExpr{X: id("simrt"), Sel: id("HTTPListenAndServe")}
			call.Args = []ast.Expr{se.X}
			r.count("http.ListenAndServe")
		case "Shutdown":
			call.Fun = &ast.SelectorExpr{X: id("simrt"), Sel: id("HTTPShutdown")}
			call.Args = append([]ast.Expr{se.X}, call.Args...)
			r.count("http.Shutdown")
		}
		return true
	})
	ast.Inspect(r.file, func(n ast.Node) bool {
		switch x := n.(type) {
		case *ast.BlockStmt:
			x.List = r.stmts(x.List)
		case *ast.CaseClause:
			x.Body = r.stmts(x.Body)
		case *ast.CommClause:
			x.Body = r.stmts(x.Body)
		}
		return true
	})
}

func isRecv(e ast.Expr) bool {
	u, ok := e.(*ast.UnaryExpr)
	return ok && u.Op == token.ARROW
}

func (r *rw) stmts(in []ast.Stmt) []ast.Stmt {
	out := make([]ast.Stmt, 0, len(in))
	for _, s := range in {
		var lbl *ast.LabeledStmt
		if l, ok := s.(*ast.LabeledStmt); ok {
			lbl, s = l, l.Stmt
		}
		var pre, post []ast.Stmt
		bracket := func(kind string) {
			tok := r.fresh("tok")
			pre = append(pre, define(tok, sim("Release")))
			post = append(post, exprStmt(sim("Acquire", id(tok))))
			r.count(kind)
		}
		switch x := s.(type) {
		case *ast.GoStmt:
			s = r.goStmt(x)
		case *ast.ExprStmt:
			if isRecv(x.X) {
				bracket("recv")
			}
		case *ast.AssignStmt:
			if len(x.Rhs) == 1 && isRecv(x.Rhs[0]) {
				bracket("recv")
			}
		case *ast.SendStmt:
			bracket("send")
		case *ast.SelectStmt:
			if !r.done[x] {
				s = r.selectStmt(x, &pre)
			}
		case *ast.RangeStmt:
			if tv, ok := r.info.Types[x.X]; ok && tv.Type != nil {
				switch tv.Type.Underlying().(type) {
				case *types.Map:
					s = r.mapRange(x, lbl)
					if lbl != nil { // label moved onto the inner loop
						lbl = nil
					}
				case *types.Chan:
					panic("range over channel not supported by the spike")
				}
			}
		}
		if lbl != nil {
			if len(post) > 0 {
				panic("labelled blocking statement not supported")
			}
			out = append(out, pre...)
			lbl.Stmt = s
			out = append(out, lbl)
			continue
		}
		out = append(out, pre...)
		out = append(out, s)
		out = append(out, post...)
	}
	return out
}

func (r *rw) goStmt(g *ast.GoStmt) ast.Stmt {
	r.count("go")
	c := g.Call
	nameLit := &ast.BasicLit{Kind: token.STRING, Value: fmt.Sprintf("%q", r.goNames[g])}
	if len(c.Args) == 0 {
		return exprStmt(sim("GoN", nameLit, c.Fun)) // func literal or method value: receiver bound now
	}
	fn := r.fresh("f")
	lhs, rhs, args := []ast.Expr{id(fn)}, []ast.Expr{c.Fun}, []ast.Expr{}
	for i, a := range c.Args {
		n := fmt.Sprintf("%s_%d", fn, i)
		lhs, rhs, args = append(lhs, id(n)), append(rhs, a), append(args, id(n))
	}
	inner := &ast.CallExpr{Fun: id(fn), Args: args, Ellipsis: c.Ellipsis}
	lit := &ast.FuncLit{Type: &ast.FuncType{Params: &ast.FieldList{}}, Body: &ast.BlockStmt{List: []ast.Stmt{exprStmt(inner)}}}
	return &ast.BlockStmt{List: []ast.Stmt{&ast.AssignStmt{Lhs: lhs, Tok: token.DEFINE, Rhs: rhs}, exprStmt(sim("GoN", nameLit, lit))}}
}

func hasLabel(n ast.Node) bool {
	found := false
	ast.Inspect(n, func(n ast.Node) bool {
		if _, ok := n.(*ast.LabeledStmt); ok {
			found = true
		}
		return !found
	})
	return found
}

// copyNode deep-copies a statement list by printing and re-parsing it.
func (r *rw) copyStmts(list []ast.Stmt) []ast.Stmt {
	var buf bytes.Buffer
	buf.WriteString("package p\nfunc _(){\n")
	for _, s := range list {
		if err := format.Node(&buf, r.fset, s); err != nil {
			panic(err)
		}
		buf.WriteString("\n")
	}
	buf.WriteString("}\n")
	f, err := parser.ParseFile(token.NewFileSet(), "", buf.Bytes(), 0)
	if err != nil {
		panic(fmt.Sprintf("%v\n%s", err, buf.String()))
	}
	body := f.Decls[0].(*ast.FuncDecl).Body.List
	stripPos(body)
	return body
}

func stripPos(list []ast.Stmt) {
	// positions from another fileset confuse the printer; zero them
	for _, s := range list {
		ast.Inspect(s, func(n ast.Node) bool {
			switch x := n.(type) {
			case *ast.Ident:
				x.NamePos = 0
			case *ast.BasicLit:
				x.ValuePos = 0
			case *ast.CallExpr:
				x.Lparen, x.Rparen = 0, 0
			case *ast.BlockStmt:
				x.Lbrace, x.Rbrace = 0, 0
			case *ast.CompositeLit:
				x.Lbrace, x.Rbrace = 0, 0
			case *ast.AssignStmt:
				x.TokPos = 0
			case *ast.ReturnStmt:
				x.Return = 0
			case *ast.IfStmt:
				x.If = 0
			case *ast.ForStmt:
				x.For = 0
			case *ast.RangeStmt:
				x.For, x.TokPos = 0, 0
			case *ast.UnaryExpr:
				x.OpPos = 0
			case *ast.BinaryExpr:
				x.OpPos = 0
			case *ast.SelectStmt:
				x.Select = 0
			case *ast.CommClause:
				x.Case, x.Colon = 0, 0
			case *ast.CaseClause:
				x.Case, x.Colon = 0, 0
			case *ast.SwitchStmt:
				x.Switch = 0
			case *ast.BranchStmt:
				x.TokPos = 0
			case *ast.SendStmt:
				x.Arrow = 0
			case *ast.GoStmt:
				x.Go = 0
			case *ast.DeferStmt:
				x.Defer = 0
			case *ast.FuncLit:
				x.Type.Func = 0
			case *ast.StarExpr:
				x.Star = 0
			case *ast.ParenExpr:
				x.Lparen, x.Rparen = 0, 0
			case *ast.IndexExpr:
				x.Lbrack, x.Rbrack = 0, 0
			case *ast.SliceExpr:
				x.Lbrack, x.Rbrack = 0, 0
			case *ast.KeyValueExpr:
				x.Colon = 0
			case *ast.IncDecStmt:
				x.TokPos = 0
			case *ast.EmptyStmt:
				x.Semicolon = 0
			}
			return true
		})
	}
}

// selectStmt: a select with a default is a poll (yield before). A blocking select is turned
// into fixed-order polling of its cases followed by the real blocking select, bracketed by
// Release/Acquire:
//
//	select { case A: a; default: select { case B: b; default: tok := Release(); select { case A: Acquire(tok); a; case B: Acquire(tok); b } } }
func (r *rw) selectStmt(x *ast.SelectStmt, pre *[]ast.Stmt) ast.Stmt {
	r.done[x] = true
	for _, c := range x.Body.List {
		if c.(*ast.CommClause).Comm == nil {
			*pre = append(*pre, exprStmt(sim("Yield")))
			r.count("select-poll")
			return x
		}
	}
	*pre = append(*pre, exprStmt(sim("Yield")))
	tok := r.fresh("tok")
	clauses := x.Body.List
	poll := !hasLabel(x) && len(clauses) > 1
	// innermost: the real blocking select
	var polls [][]ast.Stmt // copies of (comm, body) for the polling phase, made before Acquire is added
	if poll {
		for _, c := range clauses {
			cc := c.(*ast.CommClause)
			cp := r.copyStmts([]ast.Stmt{&ast.SelectStmt{Body: &ast.BlockStmt{List: []ast.Stmt{&ast.CommClause{Comm: cc.Comm, Body: cc.Body}}}}})
			polls = append(polls, cp)
		}
	}
	for _, c := range clauses {
		cc := c.(*ast.CommClause)
		cc.Body = append([]ast.Stmt{exprStmt(sim("Acquire", id(tok)))}, cc.Body...)
	}
	var inner ast.Stmt = &ast.BlockStmt{List: []ast.Stmt{define(tok, sim("Release")), x}}
	if !poll {
		r.count("select-block")
		return inner
	}
	r.count("select-block-polled")
	for i := len(polls) - 1; i >= 0; i-- {
		sel := polls[i][0].(*ast.SelectStmt)
		r.done[sel] = true
		var def []ast.Stmt
		if b, ok := inner.(*ast.BlockStmt); ok {
			def = b.List
		} else {
			def = []ast.Stmt{inner}
		}
		sel.Body.List = append(sel.Body.List, &ast.CommClause{Comm: nil, Body: def})
		inner = sel
	}
	return inner
}

// mapRange pins the iteration order:
//
//	for k, v := range m { B }
//	=>
//	{ _m := m; [var k = ZeroK(_m); var v = ZeroV(_m)]
//	  for _, _k := range simrt.MapKeys(_m) { _v, _ok := _m[_k]; if !_ok { continue }; k = _k; v = _v; B } }
//
// The loop variables are declared once, outside the loop, as Go 1.21 semantics require.
func (r *rw) mapRange(x *ast.RangeStmt, lbl *ast.LabeledStmt) ast.Stmt {
	r.count("maprange")
	m, k, v, ok := r.fresh("m"), r.fresh("k"), r.fresh("v"), r.fresh("ok")
	blank := func(e ast.Expr) bool {
		if e == nil {
			return true
		}
		i, isId := e.(*ast.Ident)
		return isId && i.Name == "_"
	}
	outer := []ast.Stmt{define(m, x.X)}
	body := []ast.Stmt{
		&ast.AssignStmt{Lhs: []ast.Expr{id(v), id(ok)}, Tok: token.DEFINE, Rhs: []ast.Expr{&ast.IndexExpr{X: id(m), Index: id(k)}}},
		&ast.IfStmt{Cond: &ast.UnaryExpr{Op: token.NOT, X: id(ok)}, Body: &ast.BlockStmt{List: []ast.Stmt{&ast.BranchStmt{Tok: token.CONTINUE}}}},
		&ast.AssignStmt{Lhs: []ast.Expr{id("_")}, Tok: token.ASSIGN, Rhs: []ast.Expr{id(v)}},
	}
	if !blank(x.Key) {
		if x.Tok == token.DEFINE {
			outer = append(outer, &ast.DeclStmt{Decl: &ast.GenDecl{Tok: token.VAR, Specs: []ast.Spec{&ast.ValueSpec{Names: []*ast.Ident{x.Key.(*ast.Ident)}, Values: []ast.Expr{sim("ZeroK", id(m))}}}}},
				&ast.AssignStmt{Lhs: []ast.Expr{id("_")}, Tok: token.ASSIGN, Rhs: []ast.Expr{x.Key}})
		}
		body = append(body, &ast.AssignStmt{Lhs: []ast.Expr{x.Key}, Tok: token.ASSIGN, Rhs: []ast.Expr{id(k)}})
	}
	if !blank(x.Value) {
		if x.Tok == token.DEFINE {
			outer = append(outer, &ast.DeclStmt{Decl: &ast.GenDecl{Tok: token.VAR, Specs: []ast.Spec{&ast.ValueSpec{Names: []*ast.Ident{x.Value.(*ast.Ident)}, Values: []ast.Expr{sim("ZeroV", id(m))}}}}},
				&ast.AssignStmt{Lhs: []ast.Expr{id("_")}, Tok: token.ASSIGN, Rhs: []ast.Expr{x.Value}})
		}
		body = append(body, &ast.AssignStmt{Lhs: []ast.Expr{x.Value}, Tok: token.ASSIGN, Rhs: []ast.Expr{id(v)}})
	}
	body = append(body, x.Body.List...)
	var loop ast.Stmt = &ast.RangeStmt{Key: id("_"), Value: id(k), Tok: token.DEFINE, X: sim("MapKeys", id(m)), Body: &ast.BlockStmt{List: body}}
	if lbl != nil {
		lbl.Stmt = loop
		loop = lbl
	}
	return &ast.BlockStmt{List: append(outer, loop)}
}

func addImport(f *ast.File, path string) {
	for _, im := range f.Imports {
		if im.Path.Value == `"`+path+`"` {
			return
		}
	}
	spec := &ast.ImportSpec{Path: &ast.BasicLit{Kind: token.STRING, Value: `"` + path + `"`}}
	for _, d := range f.Decls {
		if gd, ok := d.(*ast.GenDecl); ok && gd.Tok == token.IMPORT {
			gd.Specs = append(gd.Specs, spec)
			f.Imports = append(f.Imports, spec)
			return
		}
	}
	f.Decls = append([]ast.Decl{&ast.GenDecl{Tok: token.IMPORT, Specs: []ast.Spec{spec}}}, f.Decls...)
}

func pruneImports(f *ast.File) {
	used := map[string]bool{}
	ast.Inspect(f, func(n ast.Node) bool {
		if se, ok := n.(*ast.SelectorExpr); ok {
			if x, ok := se.X.(*ast.Ident); ok {
				used[x.Name] = true
			}
		}
		return true
	})
	for _, d := range f.Decls {
		gd, ok := d.(*ast.GenDecl)
		if !ok || gd.Tok != token.IMPORT {
			continue
		}
		keep := gd.Specs[:0]
		for _, s := range gd.Specs {
			is := s.(*ast.ImportSpec)
			p := strings.Trim(is.Path.Value, `"`)
			name := filepath.Base(p)
			if is.Name != nil {
				name = is.Name.Name
			}
			if name == "_" || name == "." || used[name] || (p != "sync" && p != "os" && p != "time" && p != "crypto/rand" && p != "os/signal" && !strings.HasSuffix(p, "/internal/godbg")) {
				keep = append(keep, s)
			}
		}
		gd.Specs = keep
	}
}
