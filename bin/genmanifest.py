#!/usr/bin/env python3
"""Regenerates MANIFEST.json from bin/props.json (single source of truth for the registered checks)."""
import json, os
V = os.path.dirname(os.path.dirname(os.path.abspath(__file__)))
props = json.load(open(os.path.join(V, "bin", "props.json")))
NA = [{"property_id": "C18", "reason": "types.Index is a pure sequential value type: its methods take no locks, read no clock, do no I/O and are never shared between goroutines, so there is no schedule, fault, crash point or timer for a simulator to control (DESIGN.md section 7); its invariants are asserted as a by-product on every index.json reached in C10 runs"}]
checks = []
for pid in sorted(props):
    s = props[pid]
    checks.append({
        "property_id": pid,
        "quick_cmd": "bin/check %s --tier quick" % pid,
        "thorough_cmd": "bin/check %s --tier thorough" % pid,
        "evidence_file": "evidence/%s.json" % pid,
        "replay_cmd_template": "bin/check replay {path}",
        "engine": s.get("engine", "seq"),
        "level_claimed": {"category": s.get("level", "exploration"), "text": s.get("level_text", "seeded search over schedules, faults and histories of the real server under a deterministic simulator; a clean batch is evidence, not proof"), "design_ref": s.get("design_ref", "DESIGN.md section 6, " + pid)},
        "level_note": s.get("level_note", "trusted: the AST rewrite (sync/go/os/channel/map-range -> simrt) preserves semantics; the simulated mutex/waitgroup implement sync semantics; tmpfs stands for the disk; go1.26.8 testing/synctest fake clock; the reference model (harness/olareg/verif_model_test.go) is the oracle"),
        "technique": s.get("technique", "deterministic simulation: seeded baton scheduler + fake clock + disk seam over the real server, reference-model oracle"),
    })
m = {
    "version": 1,
    "setup_cmd": "bin/setup",
    "hooks": {
        "guard": "verif",
        "enable": "checks copy /repo's working tree to a scratch directory (tmpfs), rewrite it there with /verif/rewrite (sync, go statements, os.*, map ranges, channel operations, time.AfterFunc/Sleep, crypto/rand -> internal/simrt), inject /verif/harness files (build tag verif for the one non-test file) and build with go1.26.8 test -c -tags verif; nothing is added to /repo",
        "baseline_off_cmd": "cd /repo && GOFLAGS=-mod=mod GOPROXY=off go test -vet=off -count=1 ./...",
        "source_commits": [],
        "add_only": True,
    },
    "engines": [
        {"name": "simrt", "path": "simrt/", "serves_properties": sorted(props), "kind_free_text": "simulator runtime: baton scheduler inside a testing/synctest bubble, simulated sync primitives, disk seam with fault injection / crash hooks, seeded streams"},
        {"name": "rewrite", "path": "rewrite/", "serves_properties": sorted(props), "kind_free_text": "go/ast + go/types rewriter that instruments a scratch copy of the repository"},
        {"name": "harness", "path": "harness/", "serves_properties": sorted(props), "kind_free_text": "in-package harness: plans, reference model, oracles, engines (seq, conc, crash, convert, cache, cli), minimiser, replay"},
        {"name": "driver", "path": "bin/check", "serves_properties": sorted(props), "kind_free_text": "build pipeline, worker fan-out, aggregation, evidence, known-findings handling"},
    ],
    "checks": checks,
    "not_applicable": NA + [{"property_id": p, "reason": r} for p, r in sorted(json.load(open(os.path.join(V, "bin", "pending.json"))).items()) if p not in props],
    "notes": "Exit codes: 0 held (KNOWN-FINDING lines list genuine, recorded defects), 1 unlisted violation (VIOLATION line with replay file), 2 infrastructure. known_findings.json lists fixed and known findings. DESIGN.md explains everything.",
}
json.dump(m, open(os.path.join(V, "MANIFEST.json"), "w"), indent=1)
print("checks:", [c["property_id"] for c in checks])
