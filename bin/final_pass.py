#!/usr/bin/env python3
"""Writes /verif/seeded/FINAL_PASS.md from the log of the final regression pass (every seeded change against the
property's own check, final machinery, 40 s each)."""
import json, sys, os
src = sys.argv[1] if len(sys.argv) > 1 else "/tmp/wtout/final_eval.jsonl"
rows = {}
for l in open(src):
    d = json.loads(l); rows[d["label"]] = d
notes = json.load(open("/verif/seeded/_notes.json"))
with open("/verif/seeded/FINAL_PASS.md", "w") as f:
    f.write("# Final regression pass\n\nEvery seeded change applied to a clone of the final /repo HEAD (`git apply`, 3-way where later `fix:` commits touch the same lines) and run against its property's own check for 40 s on the final machinery (shared with other jobs: about half of the 16 cores). rc: 1 = reported, 0 = not reported in this run, 2 = infrastructure, 8/9 = the change no longer applies or builds on the final tree.\n\n| change | check | rc | signatures (first three) | note |\n|---|---|---|---|---|\n")
    n = {0: 0, 1: 0}
    for lab in sorted(rows):
        d = rows[lab]
        n[d["rc"]] = n.get(d["rc"], 0) + 1
        sig = "; ".join(x.split("signature=")[1].split(" seed=")[0] for x in d["viol"].split(";") if "signature=" in x)
        f.write("| %s | %s | %d | %s | %s |\n" % (lab, d["prop"], d["rc"], sig.replace("|", "/")[:260] or d["viol"][:60], notes.get(lab, "")[:200].replace("|", "/")))
    f.write("\n%d changes: %s\n" % (len(rows), ", ".join("rc %s: %d" % (k, v) for k, v in sorted(n.items()))))
print(len(rows), n)
