#!/usr/bin/env python3
"""Wave 4 (suffix d) of seeded breaking changes: confirm what the authors claim, run the checks, file the results.

  bin/seeded_wave.py confirm [labels...]   unpatched demo passes, patched builds, patched demo fails, patched suite passes
  bin/seeded_wave.py check   [labels...] [--seconds N] [--prop Cxx]   property's own check (or another) against a patched clone
  bin/seeded_wave.py file                  writes /verif/seeded/<label>/ and /verif/seeded/WAVE4.md from the logs

Authors' output: /tmp/wtout/<Cxx>/<k>/{patch.diff,demo_test.go,meta.json}; label = <Cxx>d-<k>.
Logs (persistent): /verif/seeded/_wave4_confirm.jsonl, /verif/seeded/_wave4_checks.jsonl. Clones live under /dev/shm/sc and
are removed after use; /repo is never touched."""
import sys, os, json, re, subprocess, shutil, glob, time

SRC = "/tmp/wtout"
OUT = "/verif/seeded"
SC = "/dev/shm/sc"
ENV = dict(os.environ, GOFLAGS="-mod=mod", GOPROXY="off", GOSUMDB="off", GOTOOLCHAIN="local")
PKGDIR = {"olareg": ".", "olareg_test": ".", "store": "internal/store", "cache": "internal/cache", "main": "cmd/olareg", "config": "config",
          "types": "types", "types_test": "types", "config_test": "config", "store_test": "internal/store", "cache_test": "internal/cache"}


def labels(args):
    all_ = []
    for d in sorted(glob.glob(SRC + "/C*/[0-9]")):
        if os.path.exists(d + "/patch.diff") and os.path.exists(d + "/meta.json"):
            prop, k = d.split("/")[-2:]
            all_.append("%sd-%s" % (prop, k))
    for d in sorted(glob.glob(OUT + "/C*d-[0-9]")):
        if os.path.basename(d) not in all_:
            all_.append(os.path.basename(d))
    return [l for l in sorted(all_) if not args or l in args or l.split("d-")[0] in args]


def srcdir(label):
    prop, k = label.split("d-")
    d = "%s/%s/%s" % (SRC, prop, k)
    if not os.path.exists(d + "/patch.diff"):
        d = os.path.join(OUT, label)  # a later session: the filed copy
    return d, prop


def patch_path(label):
    d = srcdir(label)[0]
    return d + "/patch.ported.diff" if os.path.exists(d + "/patch.ported.diff") else d + "/patch.diff"


def demo_path(label):
    d = srcdir(label)[0]
    return d + "/demo_test.go" if os.path.exists(d + "/demo_test.go") else d + "/demonstration_test.go.txt"


def sh(cmd, cwd, timeout=1500):
    p = subprocess.run(cmd, cwd=cwd, env=ENV, shell=True, stdout=subprocess.PIPE, stderr=subprocess.STDOUT, timeout=timeout)
    return p.returncode, p.stdout.decode("utf-8", "replace")


def clone(label, patched):
    d = "%s/%s" % (SC, label)
    shutil.rmtree(d, ignore_errors=True)
    os.makedirs(SC, exist_ok=True)
    subprocess.run(["git", "clone", "-q", "/repo", d], check=True)
    if patched:
        rc, out = sh("git apply %s" % patch_path(label), d)
        if rc != 0:
            rc, out = sh("git apply -3 %s" % patch_path(label), d)
        if rc != 0:
            raise RuntimeError("patch does not apply: " + out[-400:])
    return d


def demo_info(label):
    src, prop = srcdir(label)
    txt = open(demo_path(label)).read()
    m = re.search(r"^package\s+(\w+)", txt, re.M)
    pkg = PKGDIR.get(m.group(1) if m else "olareg", ".")
    tests = re.findall(r"^func (Test\w+)\(", txt, re.M)
    race = prop == "C13" or bool(re.search(r"go test[^\n]*-race", txt))
    return pkg, tests, race


def run_demo(d, label):
    pkg, tests, race = demo_info(label)
    dst = os.path.join(d, pkg, "zz_seeded_demo_test.go")
    shutil.copy(demo_path(label), dst)
    try:
        cmd = "go test -vet=off -count=1 %s -run '^(%s)$' ./%s" % ("-race" if race else "", "|".join(tests), pkg)
        rc, out = sh(cmd, d, timeout=1200)
    finally:
        os.remove(dst)
    return rc, out


def confirm(label):
    res = {"label": label}
    try:
        d = clone(label, False)
        rc, out = run_demo(d, label)
        res["demo_unpatched_rc"] = rc
        if rc != 0:
            res["demo_unpatched_tail"] = out[-600:]
        rc, out = sh("git apply %s" % patch_path(label), d)
        if rc != 0:
            res["error"] = "patch does not apply: " + out[-300:]
            return res
        rc, out = sh("go build ./...", d)
        res["build_rc"] = rc
        rc, out = run_demo(d, label)
        res["demo_patched_rc"] = rc
        res["demo_patched_tail"] = out[-500:]
        for attempt in range(3):
            rc, out = sh("go test -vet=off -count=1 ./...", d, timeout=1800)
            fails = re.findall(r"^--- FAIL: (\S+)", out, re.M)
            res["suite_rc"] = rc
            res["suite_fails"] = fails
            if rc == 0 or any(not f.startswith("TestServer") for f in fails):
                break
        res["confirmed"] = res.get("demo_unpatched_rc") == 0 and res.get("build_rc") == 0 and res.get("demo_patched_rc") != 0 and res.get("suite_rc") == 0
    except Exception as e:
        res["error"] = str(e)[:500]
    finally:
        shutil.rmtree("%s/%s" % (SC, label), ignore_errors=True)
    return res


def check(label, prop, seconds):
    res = {"label": label, "prop": prop, "seconds": seconds, "at": time.strftime("%Y-%m-%d %H:%M"), "verif": subprocess.run(["git", "-C", "/verif", "rev-parse", "--short", "HEAD"], stdout=subprocess.PIPE).stdout.decode().strip()}
    try:
        d = clone(label, True)
        env = dict(ENV, VERIF_REPO=d, VERIF_EVIDENCE_DIR="/dev/shm/sc-ev/" + label, VERIF_MINBUDGET="12")
        p = subprocess.run(["/verif/bin/check", prop, "--seconds", str(seconds), "--workers", os.environ.get("WORKERS", "16")], env=env, stdout=subprocess.PIPE, stderr=subprocess.STDOUT, timeout=3600)
        out = p.stdout.decode("utf-8", "replace")
        res["rc"] = p.returncode
        res["signatures"] = re.findall(r"signature=(.*?) seed=", out)[:6]
        if p.returncode == 2:
            res["tail"] = out[-800:]
    except Exception as e:
        res["rc"] = 2
        res["error"] = str(e)[:500]
    finally:
        shutil.rmtree("%s/%s" % (SC, label), ignore_errors=True)
    return res


def load(path):
    rows = []
    if os.path.exists(path):
        for l in open(path):
            rows.append(json.loads(l))
    return rows


def file_results():
    conf = {r["label"]: r for r in load(OUT + "/_wave4_confirm.jsonl")}
    checks = {}
    for r in load(OUT + "/_wave4_checks.jsonl"):
        checks.setdefault(r["label"], []).append(r)
    notes = json.load(open(OUT + "/_notes.json")) if os.path.exists(OUT + "/_notes.json") else {}
    rows = []
    for lab in sorted(conf):
        c = conf[lab]
        if not c.get("confirmed"):
            rows.append((lab, "NOT KEPT: " + (c.get("error") or "demo unpatched rc=%s, demo patched rc=%s, suite rc=%s %s" % (c.get("demo_unpatched_rc"), c.get("demo_patched_rc"), c.get("suite_rc"), c.get("suite_fails"))), "", "", ""))
            shutil.rmtree(os.path.join(OUT, lab), ignore_errors=True)
            continue
        src, prop = srcdir(lab)
        dst = os.path.join(OUT, lab)
        os.makedirs(dst, exist_ok=True)
        if src != dst:
            if os.path.exists(src + "/patch.ported.diff"):
                shutil.copy(src + "/patch.ported.diff", dst + "/patch.diff")
                shutil.copy(src + "/patch.diff", dst + "/patch.as-written.diff")
            else:
                shutil.copy(src + "/patch.diff", dst + "/patch.diff")
            shutil.copy(src + "/demo_test.go", dst + "/demonstration_test.go.txt")
            meta = json.load(open(src + "/meta.json"))
        else:
            meta = json.load(open(dst + "/meta.json"))
        runs = checks.get(lab, [])
        final = {}
        for r in runs:
            final[r["prop"]] = r
        caught = [p for p, r in final.items() if r["rc"] == 1]
        first = runs[0] if runs else None
        meta["wave"] = 4
        meta["confirmed_by_me"] = {k: c.get(k) for k in ("demo_unpatched_rc", "build_rc", "demo_patched_rc", "suite_rc", "suite_fails")}
        meta["evaluation"] = {"runs": [{"check": r["prop"], "exit": r["rc"], "signatures": r.get("signatures", []), "verif_commit": r.get("verif"), "seconds": r.get("seconds")} for r in runs], "caught_by": caught,
                              "note": "each run: clone of /repo with patch.diff applied, VERIF_REPO=<clone> bin/check <check> --seconds N. Earlier runs with exit 0 are first-pass misses that led to a generator or oracle change (DESIGN.md 11.6)."}
        if os.path.exists(dst + "/patch.as-written.diff"):
            meta["ported"] = "patch.diff is the change re-applied by hand to the current /repo HEAD (a later fix: commit touches the same lines); patch.as-written.diff is the original"
        if lab in notes:
            meta["note"] = notes[lab]
        json.dump(meta, open(dst + "/meta.json", "w"), indent=1)
        own = final.get(prop, {}).get("rc") == 1
        rows.append((lab, meta.get("summary", "")[:170].replace("|", "/"), "yes" if first and first["rc"] == 1 and first["prop"] == prop else "no", "yes" if own else "no",
                     (", ".join("%s: %s" % (p, "; ".join(final[p].get("signatures", [])[:2])) for p in caught) or "NOT CAUGHT").replace("|", "/") + (" — note: " + notes[lab][:200].replace("|", "/") if lab in notes else "")))
    with open(OUT + "/WAVE4.md", "w") as f:
        f.write("# Seeded breaking changes, wave 4 (suffix d)\n\nAuthors: fresh sub-agents with the text of one property, one-line summaries of the earlier changes for it, and a scratch worktree. They were asked for changes that need something specific to manifest (an interleaving, a crash or fault at one point, a multi-step history, an unusual input or configuration, two cooperating sites). Every change was re-confirmed here (`bin/seeded_wave.py confirm`: demonstration passes on the unpatched clone, patched clone builds, demonstration fails on it, the unedited suite passes on it) before it was kept. \"first pass\" = reported by the property's own check as it was when the change arrived.\n\n| change | what it does | first pass | own check now | reported by: signatures |\n|---|---|---|---|---|\n")
        for r in rows:
            f.write("| %s | %s | %s | %s | %s |\n" % r)
        kept = [r for r in rows if not r[1].startswith("NOT KEPT")]
        f.write("\n%d changes kept; %d reported by their own check on first pass; %d by their own check now; %d by some check now.\n" % (
            len(kept), sum(1 for r in kept if r[2] == "yes"), sum(1 for r in kept if r[3] == "yes"), sum(1 for r in kept if not r[4].startswith("NOT CAUGHT"))))
    print(len(rows), "missed by own check:", [r[0] for r in rows if r[3] == "no" and not r[1].startswith("NOT KEPT")])


def main():
    what = sys.argv[1]
    args = [a for a in sys.argv[2:] if not a.startswith("--")]
    seconds = 30
    prop_override = None
    for i, a in enumerate(sys.argv):
        if a == "--seconds":
            seconds = int(sys.argv[i + 1]); args.remove(sys.argv[i + 1])
        if a == "--prop":
            prop_override = sys.argv[i + 1]; args.remove(sys.argv[i + 1])
    if what == "confirm":
        from concurrent.futures import ThreadPoolExecutor
        labs = labels(args)
        with ThreadPoolExecutor(max_workers=int(os.environ.get("JOBS", "4"))) as ex:
            for r in ex.map(confirm, labs):
                open(OUT + "/_wave4_confirm.jsonl", "a").write(json.dumps(r) + "\n")
                print(r["label"], "confirmed" if r.get("confirmed") else "NOT CONFIRMED %s" % {k: v for k, v in r.items() if k != "label" and "tail" not in k}, flush=True)
    elif what == "check":
        from concurrent.futures import ThreadPoolExecutor
        done = set()
        if "--new" in sys.argv:
            done = {(r["label"], r["prop"]) for r in load(OUT + "/_wave4_checks.jsonl")}
        todo = [(lab, prop_override or srcdir(lab)[1]) for lab in labels(args)]
        todo = [t for t in todo if t not in done]
        with ThreadPoolExecutor(max_workers=int(os.environ.get("JOBS", "1"))) as ex:
            for r in ex.map(lambda t: check(t[0], t[1], seconds), todo):
                open(OUT + "/_wave4_checks.jsonl", "a").write(json.dumps(r) + "\n")
                print(r["label"], r["prop"], "rc=%s" % r["rc"], r.get("signatures", [])[:2], r.get("error", ""), flush=True)
    elif what == "file":
        file_results()


if __name__ == "__main__":
    main()
