#!/usr/bin/env python3
"""Regression pass over seeded changes of earlier waves against the current machinery.
  bin/seeded_regress.py [--every N] [--seconds S]     (JOBS, WORKERS from the environment)
Each change: clone of /repo, git apply (3-way fallback) of seeded/<label>/patch.diff, the property's own check for S seconds.
Log: seeded/_regress_round2.jsonl (rc 1 = reported, 0 = not reported in this run, 2 = infrastructure, 8 = patch no longer applies,
9 = no longer builds)."""
import sys, os, json, re, subprocess, shutil, glob, time
from concurrent.futures import ThreadPoolExecutor
OUT = "/verif/seeded"; SC = "/dev/shm/sc2"
ENV = dict(os.environ, GOFLAGS="-mod=mod", GOPROXY="off", GOSUMDB="off", GOTOOLCHAIN="local")
every = 1; seconds = 30
for i, a in enumerate(sys.argv):
    if a == "--every": every = int(sys.argv[i + 1])
    if a == "--seconds": seconds = int(sys.argv[i + 1])
labels = sorted(os.path.basename(d) for d in glob.glob(OUT + "/C*-[0-9]") if not re.search(r"d-\d$", d))
done = set()
if os.path.exists(OUT + "/_regress_round2.jsonl"):
    done = {json.loads(l)["label"] for l in open(OUT + "/_regress_round2.jsonl")}
labels = [l for i, l in enumerate(labels) if i % every == 0 and l not in done]
notes = json.load(open(OUT + "/_notes.json"))

def one(label):
    prop = re.match(r"(C\d+)", label).group(1)
    d = "%s/%s" % (SC, label)
    shutil.rmtree(d, ignore_errors=True); os.makedirs(SC, exist_ok=True)
    res = {"label": label, "prop": prop, "seconds": seconds}
    try:
        subprocess.run(["git", "clone", "-q", "/repo", d], check=True)
        p = subprocess.run("git apply %s/%s/patch.diff || git apply -3 %s/%s/patch.diff" % (OUT, label, OUT, label), cwd=d, shell=True, stdout=subprocess.PIPE, stderr=subprocess.STDOUT)
        if p.returncode != 0 or subprocess.run("git diff --name-only --diff-filter=U | grep -q .", cwd=d, shell=True).returncode == 0:
            res["rc"] = 8; return res
        if subprocess.run("go build ./...", cwd=d, shell=True, env=ENV, stdout=subprocess.DEVNULL, stderr=subprocess.DEVNULL).returncode != 0:
            res["rc"] = 9; return res
        env = dict(ENV, VERIF_REPO=d, VERIF_EVIDENCE_DIR="/dev/shm/sc2-ev/" + label, VERIF_MINBUDGET="8")
        p = subprocess.run(["/verif/bin/check", prop, "--seconds", str(seconds), "--workers", os.environ.get("WORKERS", "8")], env=env, stdout=subprocess.PIPE, stderr=subprocess.STDOUT, timeout=3600)
        res["rc"] = p.returncode
        res["signatures"] = re.findall(r"signature=(.*?) seed=", p.stdout.decode("utf-8", "replace"))[:4]
    except Exception as e:
        res["rc"] = 2; res["error"] = str(e)[:300]
    finally:
        shutil.rmtree(d, ignore_errors=True)
    return res

with ThreadPoolExecutor(max_workers=int(os.environ.get("JOBS", "2"))) as ex:
    for r in ex.map(one, labels):
        if r["label"] in notes:
            r["note"] = notes[r["label"]][:160]
        open(OUT + "/_regress_round2.jsonl", "a").write(json.dumps(r) + "\n")
        print(r["label"], r["rc"], r.get("signatures", [])[:1], flush=True)
