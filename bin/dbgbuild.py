#!/usr/bin/env python3
"""Debug helper: build the test binary of a property from /repo's working tree (or VERIF_REPO) into /dev/shm/dbg and print
how to run one plan or a replay file by hand.   bin/dbgbuild.py C09 [--race]"""
import sys, os, shutil, json
sys.path.insert(0, os.path.dirname(os.path.abspath(__file__)))
import vlib
props = json.load(open(os.path.join(vlib.VERIF, "bin", "props.json")))
prop = sys.argv[1]
spec = props[prop]
scratch = vlib.new_scratch()
src = vlib.prepare_source(scratch)
bins = vlib.build_tests(src, scratch, [spec["pkg"]], race="--race" in sys.argv or bool(spec.get("race")))
dst = "/dev/shm/dbg"
shutil.rmtree(dst, ignore_errors=True)
os.makedirs(dst + "/runs")
shutil.copy(bins[spec["pkg"]], dst + "/test.bin")
print("cd /dev/shm/dbg && VERIF_RUNDIR=/dev/shm/dbg/runs VERIF_OUT=/dev/shm/dbg/out.json VERIF_TRACE=1 VERIF_REPLAY=<file> ./test.bin -test.run '^TestVerif$' -test.count 1")
print("cd /dev/shm/dbg && VERIF_RUNDIR=/dev/shm/dbg/runs VERIF_OUT=/dev/shm/dbg/out.json VERIF_KNOWN=/verif/known_findings.json VERIF_PROP=%s VERIF_SEED=1 VERIF_WORKER=<k> VERIF_NWORKERS=1000000 VERIF_MAXRUNS=1 VERIF_DEADLINE=9999999999 VERIF_TRACE=1 ./test.bin -test.run '^TestVerif$' -test.count 1" % prop)
