#!/usr/bin/env python3
"""Rebuilds /verif/seeded from the authors' output directories and the evaluation log (used while the waves ran)."""
import json, os, shutil, sys
SRC = sys.argv[1] if len(sys.argv) > 1 else "/tmp/wtout"
res = {}
for l in open(os.path.join(SRC, "results.jsonl")):
    d = json.loads(l); res.setdefault(d["label"], []).append(d)
out = "/verif/seeded"
NOTES = json.load(open(os.path.join(out, "_notes.json"))) if os.path.exists(os.path.join(out, "_notes.json")) else {}
os.makedirs(out, exist_ok=True)
rows = []
for lab in sorted(res):
    prop, k = lab.split("-")
    real = prop.rstrip("bc")
    src = os.path.join(SRC, prop, k); dst = os.path.join(out, lab); os.makedirs(dst, exist_ok=True)
    if not os.path.exists(os.path.join(src, "meta.json")):
        continue
    ported = os.path.join(src, "patch.ported.diff")
    if os.path.exists(ported):
        shutil.copy(ported, os.path.join(dst, "patch.diff")); shutil.copy(os.path.join(src, "patch.diff"), os.path.join(dst, "patch.as-written.diff"))
    else:
        shutil.copy(os.path.join(src, "patch.diff"), os.path.join(dst, "patch.diff"))
    if os.path.exists(os.path.join(src, "demo_test.go")):
        shutil.copy(os.path.join(src, "demo_test.go"), os.path.join(dst, "demonstration_test.go.txt"))
    meta = json.load(open(os.path.join(src, "meta.json")))
    evals = []; final = {}
    for r in res[lab]:
        sigs = [x.split("signature=")[1].split(" seed=")[0] for x in r["viol"].split(";") if "signature=" in x]
        evals.append({"check": r["prop"], "exit": r["rc"], "signatures": sigs}); final[r["prop"]] = (r["rc"], sigs)
    caught = [c for c, (rc, s) in final.items() if rc == 1]
    meta["wave"] = 3 if prop.endswith("c") else 2 if prop.endswith("b") else 1
    meta["evaluation"] = {"runs": evals, "caught_by": caught, "note": "each run: git -C /repo apply patch.diff; bin/check <check> --seconds 30..40; git -C /repo checkout -- .  Earlier runs with exit 0 are first-pass misses that led to a generator or oracle change (DESIGN.md 11.6); exit 2 = the machinery was being edited during that run."}
    if os.path.exists(ported):
        meta["ported"] = "patch.diff is the change re-applied by hand to the current /repo HEAD (later fix: commits touch the same lines); patch.as-written.diff is the original"
    if lab in NOTES:
        meta["note"] = NOTES[lab]
    json.dump(meta, open(os.path.join(dst, "meta.json"), "w"), indent=1)
    first = res[lab][0]
    own = final.get(real, (0, []))[0] == 1
    rows.append((lab, meta.get("summary", "")[:150].replace("|", "/"), "yes" if first["rc"] == 1 and first["prop"] == real else "no", "yes" if own else "no",
                 (", ".join("%s: %s" % (c, "; ".join(final[c][1][:2])) for c in caught) or "NOT CAUGHT") + (" — note: " + NOTES[lab][:160].replace("|", "/") + "…" if lab in NOTES else "")))
with open(os.path.join(out, "INDEX.md"), "w") as f:
    f.write("# Seeded breaking changes\n\nEach directory: `patch.diff` (applies to /repo HEAD with `git -C /repo apply`), `demonstration_test.go.txt` (the author's demonstration: drop into the package named in its first comment as `demo_test.go`), `meta.json` (author's description + every evaluation run).\n\nAuthors were fresh sub-agents that saw only the text of one property and a scratch worktree (waves 2 and 3, suffixes b and c, additionally saw one-line summaries of the earlier changes for the same property, to avoid duplicates). \"first pass\" = caught by the property's own check as it was when the change arrived; \"own check\" = the property's own check reports it now; the last column lists every check that reports it now.\n\n| change | what it does | first pass | own check | reported by (final machinery): signatures |\n|---|---|---|---|---|\n")
    for r in rows:
        f.write("| %s | %s | %s | %s | %s |\n" % r)
    n = len(rows); c = sum(1 for r in rows if not r[4].startswith("NOT CAUGHT")); fp = sum(1 for r in rows if r[2] == "yes"); own = sum(1 for r in rows if r[3] == "yes")
    f.write("\n%d changes; %d caught by their own check on first pass; %d caught by their own check now; %d caught by some check now.\n" % (n, fp, own, c))
print(len(rows), [r[0] for r in rows if r[4].startswith("NOT CAUGHT")], "own-miss:", [r[0] for r in rows if r[3] == "no" and not r[4].startswith("NOT CAUGHT")])
