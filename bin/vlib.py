"""Shared build/run helpers for the verif driver (bin/check)."""
import os, sys, subprocess, shutil, tempfile, json, time, hashlib, atexit, signal

VERIF = os.path.dirname(os.path.dirname(os.path.abspath(__file__)))
REPO = os.environ.get("VERIF_REPO", "/repo")
GO = "go1.26.8"
MODULE = "github.com/olareg/olareg"

ENV = dict(os.environ)
ENV.update({
    "GOFLAGS": "-mod=mod", "GOPROXY": "off", "GOSUMDB": "off", "GOTOOLCHAIN": "local",
    "GONOSUMCHECK": "1", "GONOSUMDB": "*",
})

REWRITE_PKGS = ["cmd/olareg", ".", "internal/store", "internal/cache"]  # dependents first
# harness source dir -> package dir inside the scratch copy
HARNESS = {"olareg": ".", "cache": "internal/cache", "store": "internal/store", "cmd": "cmd/olareg"}


class InfraError(Exception):
    pass


def scratch_base():
    for d in ("/dev/shm", os.environ.get("TMPDIR", ""), "/var/tmp", "/tmp"):
        if d and os.path.isdir(d) and os.access(d, os.W_OK):
            return d
    return tempfile.gettempdir()


_scratch_dirs = []


def _cleanup():
    for d in _scratch_dirs:
        shutil.rmtree(d, ignore_errors=True)


atexit.register(_cleanup)


def _term(signum, frame):
    _cleanup()
    os._exit(2)


signal.signal(signal.SIGTERM, _term)


def new_scratch(prefix="verif."):
    d = tempfile.mkdtemp(prefix=prefix + str(os.getpid()) + ".", dir=scratch_base())
    _scratch_dirs.append(d)
    return d


def run(cmd, cwd=None, timeout=900, check=True, env=None):
    p = subprocess.run(cmd, cwd=cwd, env=env or ENV, stdout=subprocess.PIPE, stderr=subprocess.STDOUT, timeout=timeout)
    out = p.stdout.decode("utf-8", "replace")
    if check and p.returncode != 0:
        raise InfraError("command failed (%d): %s\n%s" % (p.returncode, " ".join(cmd), out[-6000:]))
    return p.returncode, out


def rewrite_tool():
    """Build (once) the AST rewriter; returns its path."""
    out = os.path.join(VERIF, "out", "bin", "verif-rewrite")
    src = os.path.join(VERIF, "rewrite", "main.go")
    if os.path.exists(out) and os.path.getmtime(out) >= os.path.getmtime(src):
        return out
    os.makedirs(os.path.dirname(out), exist_ok=True)
    tmp = out + ".%d" % os.getpid()
    run([GO, "build", "-o", tmp, "."], cwd=os.path.join(VERIF, "rewrite"))
    os.replace(tmp, out)
    return out


def tree_id():
    """Identify /repo's current tree: HEAD rev + hash of the diff."""
    try:
        rev = subprocess.run(["git", "-C", REPO, "rev-parse", "HEAD"], stdout=subprocess.PIPE, stderr=subprocess.DEVNULL).stdout.decode().strip()
        diff = subprocess.run(["git", "-C", REPO, "diff", "HEAD"], stdout=subprocess.PIPE, stderr=subprocess.DEVNULL).stdout
        st = subprocess.run(["git", "-C", REPO, "status", "--porcelain"], stdout=subprocess.PIPE, stderr=subprocess.DEVNULL).stdout
        return {"git": rev, "dirty_sha256": hashlib.sha256(diff + st).hexdigest() if (diff or st) else ""}
    except Exception:
        return {"git": "", "dirty_sha256": ""}


def prepare_source(scratch):
    """Copy /repo's working tree, instrument it, inject the harness. Returns the source dir."""
    src = os.path.join(scratch, "src")
    run(["rsync", "-a", "--delete", "--exclude", ".git", "--exclude", "/build", REPO.rstrip("/") + "/", src + "/"])
    # the repository's own tests are not part of the simulated build
    for root, dirs, files in os.walk(src):
        for f in files:
            if f.endswith("_test.go"):
                os.unlink(os.path.join(root, f))
    simdst = os.path.join(src, "internal", "simrt")
    os.makedirs(simdst, exist_ok=True)
    for f in os.listdir(os.path.join(VERIF, "simrt")):
        if f.endswith(".go"):
            shutil.copy(os.path.join(VERIF, "simrt", f), simdst)
    tool = rewrite_tool()
    pkgs = [p for p in REWRITE_PKGS if os.path.isdir(os.path.join(src, p))]
    # any additional package of the module that uses sync or go statements is rewritten too
    for root, dirs, files in os.walk(src):
        rel = os.path.relpath(root, src)
        if rel in pkgs or rel == "." or rel.startswith(("internal/simrt", "testdata", ".", "internal/godbg")):
            continue
        gof = [f for f in files if f.endswith(".go")]
        if not gof:
            continue
        txt = "".join(open(os.path.join(root, f), errors="replace").read() for f in gof)
        if '"sync"' in txt or "go func" in txt:
            pkgs.append(rel)
    rc, out = run([tool, src] + pkgs, cwd=src, timeout=300, check=False)
    if rc != 0:
        raise InfraError("rewrite failed:\n" + out[-6000:])
    for h, pkg in HARNESS.items():
        hdir = os.path.join(VERIF, "harness", h)
        if not os.path.isdir(hdir):
            continue
        for f in os.listdir(hdir):
            if f.endswith(".go"):
                shutil.copy(os.path.join(hdir, f), os.path.join(src, pkg, f))
    run(["go", "mod", "edit", "-require", "github.com/anishathalye/porcupine@v1.3.0"], cwd=src)
    return src


def build_tests(src, scratch, pkgs, race=False):
    """go test -c for each harness package; returns {pkg: binary}."""
    bins = {}
    bdir = os.path.join(scratch, "bin")
    os.makedirs(bdir, exist_ok=True)
    for pkg in pkgs:
        name = (pkg.replace("/", "_").replace(".", "root")) + (".race" if race else "") + ".test"
        out = os.path.join(bdir, name)
        cmd = [GO, "test", "-c", "-tags", "verif", "-vet=off", "-o", out]
        if race:
            # the simulator runtime itself is not instrumented: its bookkeeping is serialised by the baton, which the
            # race detector is deliberately not told about
            cmd += ["-race", "-gcflags=github.com/olareg/olareg/internal/simrt=-race=false"]
        cmd.append("./" + pkg if pkg != "." else ".")
        rc, o = run(cmd, cwd=src, timeout=1200, check=False)
        if rc != 0:
            raise InfraError("build failed for %s:\n%s" % (pkg, o[-8000:]))
        bins[pkg] = out
    return bins
